#!/bin/sh
# ./seedcheck.sh <dir with patch.diff demo.py> [checks...]  - confirm a seeded change on a scratch copy and run checks against it
d=$1; shift
cd "$(dirname "$0")" || exit 1
checks="$@"; [ -z "$checks" ] && checks="C01 C02 C03 C04 C05 C06 C07 C08 C09 C10 C11 C12 C13 C14 C15 C16 C17 C18 C19 C20"
/venv/bin/python -m eqlmc.mutate "$d/patch.diff" --demo "$d/demo.py" $checks
