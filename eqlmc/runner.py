"""Driver shared by all property checks: tiers, seed, worker pool, watchdog, replay-twice, known-finding triage,
evidence writer.

    ./check C01 [--tier quick|thorough] [--replay FILE] [--workers N]

Exit status: 0 = the property held on everything explored (possibly with KNOWN-FINDING lines),
1 = at least one `VIOLATION property=<id> replay=<path>` line, 2 = harness error.
"""
from __future__ import annotations

import argparse
import ast
import hashlib
import importlib
import json
import multiprocessing as mp
import os
import signal
import subprocess
import sys
import time
import traceback

import eqlmc
from eqlmc import VERIF_ROOT
from eqlmc.worlds import Inst

BATCH = 400
CASE_TIMEOUT_S = int(__import__("os").environ.get("EQLMC_CASE_TIMEOUT", "60"))
MAX_REPORTED_SIGNATURES = 12


class CaseTimeout(Exception):
    pass


def _alarm(signum, frame):
    raise CaseTimeout()


def load_prop(pid):
    return importlib.import_module(f"eqlmc.props.{pid.lower()}")


def run_one(prop, case, inst):
    """Execute one case under the watchdog. Always returns a result dict."""
    signal.signal(signal.SIGALRM, _alarm)
    signal.alarm(int(getattr(prop, "CASE_TIMEOUT_S", CASE_TIMEOUT_S)))
    try:
        res = prop.run_case(case, inst)
    except CaseTimeout:
        res = {"ok": False, "sig": "timeout", "obs": "no result within the per-case time limit", "exp": "termination"}
    except MemoryError:
        import gc
        gc.collect()
        res = {"ok": False, "sig": "memory", "obs": "the case needed more memory than the per-worker limit", "exp": "termination within the limit"}
    except Exception as e:  # an exception escaping the property module's own handling is an observation too
        res = {"ok": False, "sig": f"exc:{type(e).__name__}", "obs": traceback.format_exc()[-1500:], "exp": "no exception"}
    finally:
        signal.alarm(0)
        try:
            from eqlmc import isolate
            isolate.forget_expressions()
        except Exception:
            pass
    return res


_KNOWN = {}


def _known(pid):
    if pid not in _KNOWN:
        from eqlmc import kf
        _KNOWN[pid] = kf.load(pid)
    return _KNOWN[pid]


def new_agg():
    return {"n": 0, "nontrivial": 0, "transitions": 0, "tags": {}, "outcomes": {}, "fails": [], "nfail": 0,
            "failsigs": {}, "fp": set(), "known": {}, "iso": {}}


def _limit_memory():
    """a per-process address-space limit (what the worker has mapped when it starts + EQLMC_WORKER_MEM_GB, default 2.5): a case
    that never stops allocating - a changed library that loops - fails with MemoryError instead of taking the machine down"""
    try:
        import resource
        # (on top of what the process has mapped already: a worker is forked from a parent that holds the set of the cases
        # enumerated so far, which is several GB for the deepest thorough tiers)
        with open("/proc/self/statm") as f:
            mapped = int(f.read().split()[0]) * os.sysconf("SC_PAGE_SIZE")
        limit = mapped + int(float(os.environ.get("EQLMC_WORKER_MEM_GB", "2.5")) * (1 << 30))
        soft, hard = resource.getrlimit(resource.RLIMIT_AS)
        if soft != resource.RLIM_INFINITY:
            return          # set already for this process (the limit is per worker, not per batch)
        if hard == resource.RLIM_INFINITY or limit < hard:
            resource.setrlimit(resource.RLIMIT_AS, (limit, hard))
    except Exception:
        pass


def _run_batch(arg):
    pid, seed, batch = arg
    _limit_memory()
    from eqlmc import kf
    prop = load_prop(pid)
    inst = Inst(seed)
    known = _known(pid)
    agg = new_agg()
    for case in batch:
        res = run_one(prop, case, inst)
        agg["n"] += 1
        if res.get("nontrivial"):
            agg["nontrivial"] += 1
        agg["transitions"] += int(res.get("transitions", 1))
        for t in res.get("tags", ()):
            agg["tags"][t] = agg["tags"].get(t, 0) + 1
        o = res.get("outcome")
        if o is not None:
            agg["outcomes"][o] = agg["outcomes"].get(o, 0) + 1
        for f in res.get("fps", ()):
            agg["fp"].add(f)
        if not res.get("ok", False):
            agg["nfail"] += 1
            sig = res.get("sig", "mismatch")
            obs = _short(res.get("obs"))
            fid = kf.match(known, prop, case, sig, obs, res.get("kf_hint"), inst)
            if fid:
                agg["known"][fid] = agg["known"].get(fid, 0) + 1
                continue
            k = agg["failsigs"].get(sig, 0)
            agg["failsigs"][sig] = k + 1
            if k < 25:
                agg["fails"].append((case, sig, obs, _short(res.get("exp"))))
    try:
        from eqlmc import isolate
        agg["iso"] = dict(isolate.stats)
    except Exception:
        agg["iso"] = {}
    return agg


def _short(x, n=1200):
    s = x if isinstance(x, str) else repr(x)
    return s if len(s) <= n else s[:n] + "..."


def case_key(case):
    return hashlib.sha1(repr(case).encode()).hexdigest()[:16]


def write_replay(prop, pid, tier, seed, case, sig, obs, exp):
    d = os.path.join(VERIF_ROOT, "replays", pid)
    os.makedirs(d, exist_ok=True)
    path = os.path.join(d, f"{case_key(case)}.json")
    inst = Inst(seed)
    try:
        src = prop.describe(case, inst)
    except Exception as e:
        src = f"<describe failed: {e}>"
    with open(path, "w") as f:
        json.dump({"property": pid, "tier": tier, "seed": seed, "case": repr(case), "signature": sig,
                   "observed": obs, "expected": exp, "source": src,
                   "replay": f"./check {pid} --replay {path}"}, f, indent=1)
    return path


def confirm_in_fresh_process(pid, seed, case):
    """replay-twice rule: re-execute the case in a fresh interpreter, return its (ok, sig, obs)."""
    code = ("import sys, ast, json; from eqlmc import runner; from eqlmc.worlds import Inst;"
            "p = runner.load_prop(sys.argv[1]); c = ast.literal_eval(sys.stdin.read());"
            "r = runner.run_one(p, c, Inst(int(sys.argv[2])));"
            "print('@@' + json.dumps([bool(r.get('ok')), r.get('sig'), runner._short(r.get('obs'))]))")
    env = dict(os.environ, PYTHONHASHSEED="0")
    p = subprocess.run([sys.executable, "-c", code, pid, str(seed)], input=repr(case), capture_output=True, text=True,
                       cwd=VERIF_ROOT, env=env, timeout=int(getattr(load_prop(pid), "CASE_TIMEOUT_S", CASE_TIMEOUT_S)) * 3)
    for line in p.stdout.splitlines():
        if line.startswith("@@"):
            return json.loads(line[2:])
    raise RuntimeError(f"fresh-process replay produced no result: rc={p.returncode}\n{p.stdout[-500:]}\n{p.stderr[-1500:]}")


def main(argv=None):
    ap = argparse.ArgumentParser()
    ap.add_argument("prop")
    ap.add_argument("--tier", default=None)
    ap.add_argument("--replay", default=None)
    ap.add_argument("--workers", type=int, default=int(os.environ.get("EQLMC_WORKERS", "0")) or (os.cpu_count() or 4))
    ap.add_argument("--limit", type=int, default=0, help="debug: stop after N cases (evidence says non-exhaustive)")
    ap.add_argument("--list-failures", type=int, default=0, help="debug: print up to N failing cases per signature")
    ap.add_argument("--no-evidence", action="store_true")
    args = ap.parse_args(argv)

    pid = args.prop.upper()
    tier = args.tier or os.environ.get("VERIF_TIER") or "quick"
    if tier not in ("quick", "thorough"):
        print(f"unknown tier {tier}", file=sys.stderr)
        return 2
    try:
        seed = int(os.environ.get("VERIF_SEED", "0") or 0)
    except ValueError:
        seed = 0
    seed = abs(seed)
    prop = load_prop(pid)
    inst = Inst(seed)

    if args.replay:
        return replay(prop, pid, args.replay)

    t0 = time.time()
    from eqlmc import kf
    known = kf.load(pid)

    seen = set()
    total = 0
    dup = 0
    agg = new_agg()
    samples = []
    capped = False

    def batches():
        nonlocal total, dup, capped
        cur = []
        for case in prop.cases(tier, inst):
            # de-duplicate by the case itself, not by its hash alone: under PYTHONHASHSEED=0 hash("") == hash(0), a hash
            # collision must not drop a case
            if case in seen:
                dup += 1
                continue
            seen.add(case)
            total += 1
            if len(samples) < 3 or (total in (97, 997, 9973, 99991)):
                samples.append(case)
            cur.append(case)
            if len(cur) >= getattr(prop, "BATCH", BATCH):
                yield (pid, seed, cur)
                cur = []
            if args.limit and total >= args.limit:
                capped = True
                break
        if cur:
            yield (pid, seed, cur)

    ctx = mp.get_context("fork")
    workers = max(1, args.workers)
    if workers == 1:
        results = map(_run_batch, batches())
        pool = None
    else:
        pool = ctx.Pool(processes=workers, maxtasksperchild=getattr(prop, "TASKS_PER_CHILD", 3))
        results = pool.imap_unordered(_run_batch, batches())
    try:
        for r in results:
            agg["n"] += r["n"]
            agg["nontrivial"] += r["nontrivial"]
            agg["transitions"] += r["transitions"]
            agg["nfail"] += r["nfail"]
            for k, v in r["tags"].items():
                agg["tags"][k] = agg["tags"].get(k, 0) + v
            for k, v in r["outcomes"].items():
                agg["outcomes"][k] = agg["outcomes"].get(k, 0) + v
            for k, v in r["failsigs"].items():
                agg["failsigs"][k] = agg["failsigs"].get(k, 0) + v
            for k, v in r.get("iso", {}).items():
                agg["iso"][k] = agg["iso"].get(k, 0) + v
            for k, v in r["known"].items():
                agg["known"][k] = agg["known"].get(k, 0) + v
            agg["fp"] |= r["fp"]
            agg["fails"].extend(r["fails"])
    finally:
        if pool is not None:
            pool.close()
            pool.join()

    # ---------------------------------------------------------------- failures not attributed to a known finding
    # (attribution happens in the workers, for every failing case; see kf.py)
    violations = sorted(agg["fails"], key=lambda f: (len(repr(f[0])), repr(f[0])))
    known_hits = agg["known"]
    by_sig = {}
    for f in violations:
        by_sig.setdefault(f[1], []).append(f)
    n_violations = sum(agg["failsigs"].values())

    exit_code = 0
    reported = []
    if violations:
        vsigs = {}
        for f in violations:
            vsigs.setdefault(f[1], []).append(f)
        for sig, fl in list(vsigs.items())[:MAX_REPORTED_SIGNATURES]:
            case, _, obs, exp = fl[0]
            try:
                ok2, sig2, obs2 = confirm_in_fresh_process(pid, seed, case)
            except Exception as e:
                print(f"HARNESS-ERROR: fresh-process replay failed for {pid}: {e}", file=sys.stderr)
                return 2
            if ok2 or sig2 != sig or obs2 != obs:
                print(f"HARNESS-ERROR: nondeterministic failure for {pid} signature={sig}: in-pool obs={obs!r} "
                      f"fresh obs={obs2!r} (ok={ok2}, sig={sig2}); case={case!r}", file=sys.stderr)
                return 2
            path = write_replay(prop, pid, tier, seed, case, sig, obs, exp)
            reported.append((sig, agg["failsigs"].get(sig, len(fl)), path))
        exit_code = 1

    for fid, n in sorted(known_hits.items()):
        print(f"KNOWN-FINDING: property={pid} {known[fid]['what']} [{fid}; {n} explored cases]")
    for sig, n, path in reported:
        print(f"VIOLATION property={pid} replay={path}")
        print(f"  signature={sig} failing_cases_with_this_signature={n}")
    if args.list_failures:
        for sig, fl in by_sig.items():
            print(f"--- {sig}: {agg['failsigs'].get(sig)} failures")
            for f in fl[:args.list_failures]:
                print("   ", _short(prop.describe(f[0], inst), 400).replace("\n", "\n      "))
                print("      obs:", _short(f[2], 300))
                print("      exp:", _short(f[3], 300))

    wall = time.time() - t0
    nv = sum(n for _, n, _ in reported) if reported else 0
    # ---------------------------------------------------------------- evidence
    if not args.no_evidence and not args.limit:
        ev = {
            "property_id": pid,
            "tier": tier,
            "seed": seed,
            "level": "model_checking",
            "coverage": {
                "states": (len(agg["fp"]) if agg["fp"] else len(seen)),
                "transitions": agg["transitions"],
                "traces_validated_against_impl": agg["n"],
                "evaluations": agg["n"],
                "distinct_nontrivial": agg["nontrivial"],
                "rule": prop.RULE,
                "samples": [{"case": repr(c), "as_python": _try_describe(prop, c, inst)} for c in samples[:6]],
                "exhaustive": not capped,
                "bounds": prop.bounds(tier) if hasattr(prop, "bounds") else {},
                "distinct_cases": len(seen),
                "duplicate_cases_skipped": dup,
                "distinct_outcomes": len(agg["outcomes"]),
                "outcomes": dict(sorted(agg["outcomes"].items(), key=lambda kv: -kv[1])[:40]),
                "non_vacuity": dict(sorted(agg["tags"].items())),
                "states_meaning": ("distinct implementation-state fingerprints reached" if agg["fp"]
                                   else "distinct enumerated cases (each executed on the implementation from a clean state)"),
                "failing_cases": agg["nfail"],
                "known_finding_cases": sum(known_hits.values()),
                "isolation": agg["iso"],
                "engine": getattr(prop, "ENGINE", "eqlmc-E1"),
                "workers": workers,
                "repo": eqlmc.REPO_ROOT,
            },
            "assumptions": list(getattr(prop, "ASSUMPTIONS", [])) + [
                "CPython 3.12 semantics; reference model in eqlmc/qast.py and the property module",
                "per-case isolation as in eqlmc/isolate.py (fresh context, registry cleared like the repo's test fixture)",
            ],
            "wall_s": round(wall, 2),
            "violations": nv,
        }
        os.makedirs(os.path.join(VERIF_ROOT, "evidence"), exist_ok=True)
        with open(os.path.join(VERIF_ROOT, "evidence", f"{pid}.json"), "w") as f:
            json.dump(ev, f, indent=1, default=str)
    print(f"{pid} tier={tier} seed={seed} cases={agg['n']} distinct={len(seen)} nontrivial={agg['nontrivial']} "
          f"transitions={agg['transitions']} failing={agg['nfail']} known={sum(known_hits.values())} "
          f"violations={n_violations} wall={wall:.1f}s exhaustive={not capped}")
    return exit_code


def _try_describe(prop, case, inst):
    try:
        return prop.describe(case, inst)
    except Exception as e:
        return f"<describe failed: {e}>"


def replay(prop, pid, path):
    with open(path) as f:
        d = json.load(f)
    case = ast.literal_eval(d["case"])
    inst = Inst(int(d.get("seed", 0)))
    res = run_one(prop, case, inst)
    print(_try_describe(prop, case, inst))
    print("observed:", _short(res.get("obs")))
    print("expected:", _short(res.get("exp")))
    if res.get("ok"):
        print(f"{pid}: replayed case holds")
        return 0
    print(f"VIOLATION property={pid} replay={path}")
    print(f"  signature={res.get('sig')}")
    return 1


if __name__ == "__main__":
    sys.exit(main())
