"""MANIFEST.setup_cmd: offline sanity of the framework (fetches nothing, builds nothing outside /verif)."""
import compileall
import importlib
import json
import os
import sys

import eqlmc


def main():
    ok = compileall.compile_dir(os.path.join(eqlmc.VERIF_ROOT, "eqlmc"), quiet=1)
    if not ok:
        print("selftest: byte-compilation failed")
        return 1
    import entity_query_language
    src = os.path.abspath(entity_query_language.__file__)
    if not src.startswith(os.path.abspath(os.path.join(eqlmc.REPO_ROOT, "src"))):
        print(f"selftest: library imported from {src}, expected under {eqlmc.REPO_ROOT}/src")
        return 1
    with open(os.path.join(eqlmc.VERIF_ROOT, "MANIFEST.json")) as f:
        man = json.load(f)
    for c in man["checks"]:
        importlib.import_module(f"eqlmc.props.{c['property_id'].lower()}")
    for d in ("evidence", "replays"):
        os.makedirs(os.path.join(eqlmc.VERIF_ROOT, d), exist_ok=True)
    print(f"selftest ok: library at {src}; {len(man['checks'])} checks importable")
    return 0


if __name__ == "__main__":
    sys.exit(main())
