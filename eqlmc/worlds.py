"""@symbol test classes, user predicates and data construction shared by the property modules.

Everything here is ordinary user-level code written against the public API of the library under test.
Identity is the notion of equality (dataclass(eq=False)), as for the library's HashedValue.
"""
from __future__ import annotations

from dataclasses import dataclass, field
from typing import Any

import eqlmc  # noqa: F401  (puts the library under test on sys.path)
from entity_query_language import symbol, predicate, Predicate, HasType, symbolic_mode, let, an, entity  # noqa: F401
from entity_query_language.symbolic import in_symbolic_mode


# ------------------------------------------------------------------------------------------------
# call log: user code called by the library during evaluation records itself here (C04 faults, C07
# laziness, C09 "predicates run concretely")
# ------------------------------------------------------------------------------------------------
class CallLog:
    def __init__(self):
        self.reset()

    def reset(self):
        self.calls = []          # (name, args-labels)
        self.symbolic_seen = 0   # number of user-code calls made while symbolic mode was active
        self.raise_at = None     # (name, j): the j-th call (1-based) of user code `name` raises
        self.counts = {}

    def hit(self, name, *labels):
        self.calls.append((name,) + labels)
        if in_symbolic_mode():
            self.symbolic_seen += 1
        n = self.counts.get(name, 0) + 1
        self.counts[name] = n
        if self.raise_at is not None and self.raise_at[0] == name and self.raise_at[1] == n:
            raise InjectedFault(f"{name}#{n}")


class InjectedFault(Exception):
    pass


LOG = CallLog()


# ------------------------------------------------------------------------------------------------
# generic item
# ------------------------------------------------------------------------------------------------
@symbol
@dataclass(eq=False)
class Item:
    p: Any = 1
    q: Any = 1
    s: Any = "ab"
    t: Any = (1,)
    d: Any = field(default_factory=lambda: {"k": 1})
    items: Any = (1,)
    ref: Any = None
    flag: Any = True
    tag: Any = None        # label only, never used in conditions

    # boolean / value methods used through Call
    def is_p(self, k):
        LOG.hit("is_p", self.tag)
        return self.p == k

    def p_ge(self, k):
        return self.p >= k

    def flagged(self):
        return self.flag

    def p_between(self, lo=1, hi=3):
        """keyword arguments with defaults: called as x.p_between(lo=2) / x.p_between(hi=1) / x.p_between(2, hi=2)"""
        return lo <= self.p <= hi

    def get_p(self):
        return self.p

    def get_q(self):
        return self.q

    def __repr__(self):
        return f"Item<{self.tag}>"


@dataclass(eq=False)
class IdItem(Item):
    """an Item whose class happens to have a field called `_id_` (every instance the same value): user data, not the
    library's business"""
    _id_: Any = 7


@symbol
@dataclass(eq=False)
class Kid:
    """what an Item's `ref` points to in worlds where the registry of Item must be exactly one domain: same fields and
    methods as far as conditions use them, but not an Item"""
    p: Any = 1
    q: Any = 1
    s: Any = "ab"
    flag: Any = True
    tag: Any = None
    p_ge, flagged, p_between, get_p, get_q = Item.p_ge, Item.flagged, Item.p_between, Item.get_p, Item.get_q

    def __repr__(self):
        return f"Kid<{self.tag}>"


@symbol
@dataclass(unsafe_hash=True)
class VItem:
    """value equality (dataclass eq): two distinct objects with equal fields compare equal, yet they are two objects"""
    p: Any = 1
    q: Any = 1
    tag: Any = field(default=None, compare=False)

    def __repr__(self):
        return f"VItem<{self.tag}>"


@symbol
@dataclass(eq=False)
class Dflt:
    """every field has a default: Dflt() is a complete construction"""
    k: Any = 1
    tag: Any = None

    def __repr__(self):
        return f"Dflt<{self.tag}>"


@symbol
class Hand0:
    """hand-written __init__ without parameters"""

    def __init__(self):
        self.k = 1
        self.tag = None

    def __repr__(self):
        return "Hand0<>"


@symbol
@dataclass(eq=False)
class Other:
    """A second, unrelated @symbol type (type filter / joins across types)."""
    p: Any = 1
    q: Any = 1
    ref: Any = None
    tag: Any = None

    def __repr__(self):
        return f"Other<{self.tag}>"


# ------------------------------------------------------------------------------------------------
# user predicates
# ------------------------------------------------------------------------------------------------
@predicate
def p_eq(x, k):
    LOG.hit("p_eq", getattr(x, "tag", x))
    return x.p == k


@predicate
def p_lt(x, y):
    LOG.hit("p_lt", getattr(x, "tag", x), getattr(y, "tag", y))
    return x.p < y.p


@predicate
def p_eq_nested(x, k):
    """a user predicate that calls another user predicate in its body (must be a plain call while evaluating)"""
    LOG.hit("p_eq_nested", getattr(x, "tag", x))
    return True if p_eq(x, k) else False


@predicate
def p_eq_inner(x, k):
    """a user predicate that builds and evaluates a query of its own - with a Predicate subclass written positionally, as
    inside a query block - in a block of its own"""
    LOG.hit("p_eq_inner", getattr(x, "tag", x))
    with symbolic_mode():
        n = let(Item, [x])
        inner = an(entity(n, PEq(n, k)))
    return any(True for _ in inner.evaluate())


@predicate
def val_eq(v, k):
    LOG.hit("val_eq", v)
    return v == k


@dataclass(eq=False)
class PEq(Predicate):
    x: Any
    k: Any

    def __call__(self):
        LOG.hit("PEq", getattr(self.x, "tag", self.x))
        return self.x.p == self.k


@dataclass(eq=False)
class PLt(Predicate):
    x: Any
    y: Any

    def __call__(self):
        LOG.hit("PLt", getattr(self.x, "tag", self.x), getattr(self.y, "tag", self.y))
        return self.x.p < self.y.p


@predicate
def p_below(x, limit=2):
    """a parameter with a default: called as p_below(x), p_below(x, 3), p_below(x, limit=3)"""
    LOG.hit("p_below", getattr(x, "tag", x))
    return x.p < limit


@predicate
def p_val(x):
    """a user function used as a VALUE: what it returns is compared / selected / passed on, falsy or not"""
    LOG.hit("p_val", getattr(x, "tag", x))
    return x.p


@predicate
def s_val(x):
    LOG.hit("s_val", getattr(x, "tag", x))
    return x.s


PREDICATE_FUNCS = {"p_val": p_val, "s_val": s_val, "p_below": p_below, "p_eq": p_eq, "p_lt": p_lt, "val_eq": val_eq, "p_eq_nested": p_eq_nested, "p_eq_inner": p_eq_inner}
PREDICATE_CLASSES = {"PEq": PEq, "PLt": PLt, "HasType": HasType}


# ------------------------------------------------------------------------------------------------
# hierarchy for C13 / C14 (class signatures)
# ------------------------------------------------------------------------------------------------
@symbol
@dataclass(eq=False)
class Base:
    k: Any
    v: Any = 7
    tag: Any = None

    def __repr__(self):
        return f"{type(self).__name__}<{self.tag}>"


@symbol
@dataclass(eq=False)
class Sub(Base):            # decorated subclass, inherits the fields
    pass


@dataclass(eq=False)
class FalsyBase(Base):      # an instance that is falsy (an empty container-like object): still an object like any other
    def __bool__(self):
        return False


@dataclass(eq=False)
class USub(Base):           # undecorated subclass with an extra field
    w: Any = 9


@dataclass(eq=False)
class Leaf(Sub):            # third level (undecorated, below the decorated subclass)
    pass


@symbol
class Hand:                 # hand-written __init__
    init_calls = 0

    def __init__(self, k, v=7, tag=None):
        type(self).init_calls += 1
        self.k = k
        self.v = v
        self.tag = tag

    def __repr__(self):
        return f"Hand<{self.tag}>"


class Brittle(Hand):        # undecorated subclass whose construction can fail (before anything is initialised)
    def __init__(self, k, fail=False, tag=None):
        if fail:
            raise ValueError("construction refused")
        super().__init__(k, tag=tag)

    def __repr__(self):
        return f"Brittle<{getattr(self, 'tag', 'never-initialised')}>"


@dataclass(eq=False)
class KwOnlyBase:
    world: Any = field(default=None, kw_only=True)


@symbol
@dataclass(eq=False)
class Part(KwOnlyBase):     # an inherited keyword-only field is DECLARED before the positional ones
    k: Any = 1
    v: Any = 7
    tag: Any = None

    def __repr__(self):
        return f"Part<{self.tag}>"


@symbol
@dataclass(eq=False)
class Rev:                  # dataclass with a hand-written __init__ whose parameter order differs from the field order
    k: Any = 1
    v: Any = 7
    tag: Any = None

    def __init__(self, v=7, k=1, tag=None):
        self.k = k
        self.v = v
        self.tag = tag

    def __repr__(self):
        return f"Rev<{self.tag}>"


@symbol
@dataclass(eq=False)
class Holder:               # holds another object: nested predicate-form terms
    inner: Any
    n: Any = 1
    tag: Any = None

    def __repr__(self):
        return f"Holder<{self.tag}>"


# ------------------------------------------------------------------------------------------------
# rule heads (C09, C11, C12)
# ------------------------------------------------------------------------------------------------
@symbol
@dataclass(eq=False)
class View:
    pass


@dataclass(eq=False)
class Made(View):
    a: Any = None
    b: Any = None
    c: Any = None

    def __repr__(self):
        return f"Made({self.a!r},{self.b!r},{self.c!r})"


@dataclass(eq=False)
class MadeB(Made):
    """an inferred instance whose own truth value depends on a field (`if instance:` is user business, not the library's)"""

    def __bool__(self):
        return bool(self.b)

    def __repr__(self):
        return f"MadeB({self.a!r},{self.b!r},{self.c!r})"


@dataclass(eq=False)
class Made2(View):
    a: Any = None
    b: Any = None

    def __repr__(self):
        return f"Made2({self.a!r},{self.b!r})"


CLASSES = {c.__name__: c for c in (Item, IdItem, Kid, Other, Base, FalsyBase, Sub, USub, Leaf, Hand, Brittle, Holder, View, Made, MadeB, Made2, Part, Rev, VItem, Dflt,
                                           Hand0)}


# ------------------------------------------------------------------------------------------------
# seed-dependent, order preserving instantiation of the abstract value alphabet
# ------------------------------------------------------------------------------------------------
_INT_MAPS = [
    {},                                    # seed 0: identity
    {1: 2, 2: 5, 3: 9, 4: 11, 5: 12},
    {1: 10, 2: 20, 3: 30, 4: 40, 5: 50},
    {1: 3, 2: 4, 3: 7, 4: 8, 5: 100},
]


class Inst:
    """Isomorphic instantiation of the abstract alphabet selected by VERIF_SEED.

    Positive integers are renamed by a strictly increasing map (0 and negatives are fixed, so falsy stays falsy),
    and every domain is rotated by a seed dependent offset. The enumerated space (abstract cases) is the same for every
    seed; only its concrete rendering differs.
    """

    def __init__(self, seed: int = 0):
        self.seed = seed
        self.imap = _INT_MAPS[seed % len(_INT_MAPS)]
        self.rot = (seed // len(_INT_MAPS)) % 3

    def v(self, x):
        if isinstance(x, bool) or x is None:
            return x
        if isinstance(x, int):
            return self.imap.get(x, x)
        if isinstance(x, tuple):
            return tuple(self.v(e) for e in x)
        if isinstance(x, list):
            return [self.v(e) for e in x]
        if isinstance(x, dict):
            return {k: self.v(e) for k, e in x.items()}
        return x

    def rotate(self, rows):
        rows = list(rows)
        if not rows or not self.rot:
            return rows
        r = self.rot % len(rows)
        return rows[r:] + rows[:r]


class IterOnly:
    """an iterable that is no Collection: no __len__, no __contains__, no __getitem__; can be iterated any number of times"""

    def __init__(self, elems):
        self._elems = elems

    def __iter__(self):
        return iter(self._elems)

    def __repr__(self):
        return f"IterOnly{self._elems!r}"


def _resolve(val, by_spec, inst):
    """('@', domkey, i) -> the object; tuples/lists are resolved element-wise; ('list', ...) builds a list"""
    if isinstance(val, tuple):
        if len(val) == 3 and val[0] == "@" and isinstance(val[1], str):
            return by_spec[val[1]][val[2]]
        if val and val[0] == "list!":
            return [_resolve(e, by_spec, inst) for e in val[1:]]
        if len(val) == 2 and val[0] == "raw!":        # ("raw!", value): the value as it is (not resolved, not renamed)
            return val[1]
        if val and val[0] == "iter!":              # ("iter!", 1, 2) -> a re-iterable object that has __iter__ and nothing else
            return IterOnly(tuple(inst.v(e) for e in val[1:]))
        if val and val[0] == "fset!":              # ("fset!", 1, 2) -> frozenset({1, 2})   (a partially ordered value)
            return frozenset(inst.v(e) for e in val[1:])
        return tuple(_resolve(e, by_spec, inst) for e in val)
    if val == "nan!":                               # a float that is unordered with respect to every number
        return float("nan")
    return inst.v(val)


def build_world(wspec, inst: Inst):
    """wspec: tuple of (domain key, class name, rows); row = tuple of (field, value) pairs.

    A value ('@', domkey, i) refers to the i-th object (spec order) of another, earlier domain.
    A row ('raw', value) puts a non-instance (any Python value) into the domain.
    Returns {domkey: [objects]}; objects get tag '<domkey><i>' (spec order) unless the class has no tag field.
    """
    by_spec = {}
    world = {}
    for domkey, clsname, rows in wspec:
        objs = []
        for i, row in enumerate(rows):
            if row and row[0] == "raw":
                objs.append(inst.v(row[1]))
                continue
            if row and row[0] == "same":          # the same object listed again: ('same', j)
                objs.append(objs[row[1]])
                continue
            cname = clsname
            if row and row[0] == "cls":           # ('cls', name, fields...)
                cname, row = row[1], row[2:]
            kw = {}
            for f, val in row:
                kw[f] = _resolve(val, by_spec, inst)
            cls = CLASSES[cname]
            if "tag" not in kw and "tag" in getattr(cls, "__dataclass_fields__", {"tag": None}):
                kw["tag"] = f"{domkey}{i}"
            objs.append(cls(**kw))
        by_spec[domkey] = objs
        world[domkey] = inst.rotate(objs)
    return world


def label_of(world):
    """identity -> stable label (domain key, spec index via tag)"""
    lab = {}
    for dk, objs in world.items():
        for o in objs:
            lab.setdefault(id(o), getattr(o, "tag", None) if hasattr(o, "tag") else repr(o))
    return lab
