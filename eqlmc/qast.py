"""Query AST shared by the property modules: builder (AST -> real library objects through the public API),
reference semantics (ordinary Python) and unparser (AST -> public-API Python source).

An AST is a nested tuple of str/int/bool/None, so `repr()` / `ast.literal_eval` round-trip it.

terms   ("v", name) | ("a", t, attr) | ("i", t, key) | ("c", t, method, args) | ("l", value) | ("sub", Q)
        ("fl", t) flatten | ("cc", t) concatenate      (reference semantics for these two live in c16/c17)
conds   ("cmp", op, t1, t2)  op in eq ne lt le gt ge
        ("in", item, container) -> in_(item, container)      ("has", container, item) -> contains(container, item)
        ("t", term)           truth position
        ("pf", fname, args)   @predicate function            ("pc", clsname, args)  Predicate subclass
        ("and", a, b) a & b   ("andf", c...) and_(...)       ("or", a, b) a | b     ("orf", c...) or_(...)
        ("not", c) not_(c)    ("inv", c) ~c                  ("fa", term, cond) for_all   ("sq", Q) sub-query
query   ("Q", quant, kind, sel, conds, vars)
        quant an|the|infer   kind entity|setof   sel term | tuple of terms   conds tuple
        vars  tuple of (name, style, clsname, domkey)   style let|from|bare(no domain)
"""
from __future__ import annotations

import itertools
import operator

import eqlmc  # noqa: F401
from entity_query_language import (entity, set_of, an, the, infer, let, and_, or_, not_, contains, in_, flatten,
                                   concatenate, for_all, symbolic_mode, rule_mode, From)

from . import worlds as W

OPS = {"eq": operator.eq, "ne": operator.ne, "lt": operator.lt, "le": operator.le, "gt": operator.gt,
       "ge": operator.ge}
OPSYM = {"eq": "==", "ne": "!=", "lt": "<", "le": "<=", "gt": ">", "ge": ">="}
NEG = {"eq": "ne", "ne": "eq", "lt": "ge", "ge": "lt", "gt": "le", "le": "gt"}
MIRROR = {"eq": "eq", "ne": "ne", "lt": "gt", "gt": "lt", "le": "ge", "ge": "le"}


# ------------------------------------------------------------------------------------------------
# builder
# ------------------------------------------------------------------------------------------------
class Builder:
    def __init__(self, world, inst, share_terms=False, share_conds=False):
        self.world = world
        self.inst = inst
        self.share_terms = share_terms      # e = x.p written once and used in several places of the condition
        self.share_conds = share_conds      # c = (x.p > 1) written once and used in several places of the condition
        self.env = {}
        self.froms = {}
        self.memo = {}
        self.sel = {}       # query AST -> built selected expression(s), needed to index result rows

    def declare(self, vars_):
        for name, style, clsname, domkey in vars_:
            if name in self.env:
                continue
            cls = W.CLASSES[clsname]
            if style == "let":
                self.env[name] = let(cls, self.world[domkey])
            elif style == "letn":                      # let with an explicit name
                self.env[name] = let(cls, self.world[domkey], name=name)
            elif style == "from":
                self.env[name] = cls(From(self.world[domkey]))
            elif style == "lettuple":                  # the domain given as a tuple
                self.env[name] = let(cls, tuple(self.world[domkey]))
            elif style == "letgen":                    # ... as a generator
                self.env[name] = let(cls, (o for o in self.world[domkey]))
            elif style == "let1":                      # the domain is a single object, not a collection
                self.env[name] = let(cls, self.world[domkey][0])
            elif style == "from1":
                self.env[name] = cls(From(self.world[domkey][0]))
            elif style == "sharedfrom":                # one From object shared by every variable over this domain
                f = self.froms.setdefault(domkey, From(self.world[domkey]))
                self.env[name] = cls(f)
            elif style == "bare":
                self.env[name] = let(cls)
            elif style == "barecall":
                self.env[name] = cls()
            else:
                raise ValueError(style)

    def term(self, t):
        if self.share_terms and t[0] in ("a", "i", "c", "ck"):
            if t not in self.memo:
                self.memo[t] = self._term(t)
            return self.memo[t]
        return self._term(t)

    def _term(self, t):
        k = t[0]
        if k == "v":
            return self.env[t[1]]
        if k == "a":
            return getattr(self.term(t[1]), t[2])
        if k == "i":
            return self.term(t[1])[self.inst.v(t[2])]
        if k == "c":
            return getattr(self.term(t[1]), t[2])(*[self.inst.v(a) for a in t[3]])
        if k == "l":
            return self.inst.v(t[1])
        if k == "pfv":          # ("pfv", fname, args): a @predicate function call used as a VALUE
            return W.PREDICATE_FUNCS[t[1]](*[self.term(a) for a in t[2]])
        if k == "ob":           # ("ob", domkey, index): an object of the world used as a constant
            return self.world[t[1]][t[2]]
        if k == "lb":           # ("lb", "True"/"False"): a boolean constant (kept apart from 1 / 0 in case keys)
            return t[1] == "True"
        if k == "lfs":          # ("lfs", 1, 2): the constant frozenset({1, 2})
            return frozenset(self.inst.v(e) for e in t[1:])
        if k == "ck":
            return getattr(self.term(t[1]), t[2])(*[self.inst.v(a) for a in t[3]], **{n: self.inst.v(a) for n, a in t[4]})
        if k in ("fl", "cc"):
            # e = flatten(...) / concatenate(...) is written once and reused: one node per distinct AST term
            if t not in self.memo:
                self.memo[t] = (flatten if k == "fl" else concatenate)(self.term(t[1]))
            return self.memo[t]
        if k == "sub":
            return self.query(t[1])
        if k == "sub1":         # like "sub", but ONE sub-query object for every occurrence of the term (s = an(...) reused)
            if t not in self.memo:
                self.memo[t] = self.query(t[1])
            return self.memo[t]
        if k == "new":          # ("new", clsname, positional terms, ((field, term), ...)) constructor call
            pos = [self.arg(a) for a in t[2]]
            kw = {f: self.arg(a) for f, a in t[3]}
            return W.CLASSES[t[1]](*pos, **kw)
        if k == "pform":        # ("pform", clsname, domkey|None, positional, kw) predicate-form term T(From(d), ...)
            pos = [self.arg(a) for a in t[3]]
            kw = {f: self.arg(a) for f, a in t[4]}
            if t[2] is None:
                return W.CLASSES[t[1]](*pos, **kw)
            if isinstance(t[2], tuple):          # ("shared", domkey): one From object reused
                f = self.froms.setdefault(t[2][1], From(self.world[t[2][1]]))
                return W.CLASSES[t[1]](f, *pos, **kw)
            return W.CLASSES[t[1]](From(self.world[t[2]]), *pos, **kw)
        if k == "bound":        # ("bound", name, term): build term once, remember it as variable `name`
            if t[1] not in self.env:
                self.env[t[1]] = self.term(t[2])
            return self.env[t[1]]
        raise ValueError(t)

    def arg(self, a):
        """constructor / predicate argument: a literal is passed as the plain Python constant"""
        return self.term(a)

    def cond(self, c):
        k = c[0]
        if self.share_conds and k in ("cmp", "in", "has", "pf", "pc"):
            if ("cond", c) not in self.memo:
                self.memo[("cond", c)] = self._leaf(c)
            return self.memo[("cond", c)]
        if self.share_conds == "neg" and (k == "t" or (k in ("not", "inv") and c[1][0] in ("cmp", "in", "has", "t", "pf", "pc"))):
            # s = not_(x.flag) / s = not_(x.p > 1) / s = x.flag written ONCE and used in several places: the negated object
            # as a whole is what is reused (its operand is built for it alone, never shared with an un-negated occurrence)
            if ("cond", c) not in self.memo:
                self.memo[("cond", c)] = (self._leaf(c) if k == "t" else
                                          (not_ if k == "not" else operator.invert)(self._leaf(c[1])))
            return self.memo[("cond", c)]
        if self.share_conds == "ops" and k in ("and", "or", "andf", "orf"):
            # s = and_(a, b) / s = a | b written ONCE and used in several places of the condition
            if ("cond", c) not in self.memo:
                self.memo[("cond", c)] = self._leaf(c)
            return self.memo[("cond", c)]
        if k == "const":        # ("const", "True"/"False"): a plain Python bool given as a condition
            return c[1] == "True"
        return self._leaf(c)

    def _leaf(self, c):
        k = c[0]
        if k == "cmp":
            a, b = self.term(c[2]), self.term(c[3])
            return OPS[c[1]](a, b)
        if k == "in":
            return in_(self.term(c[1]), self.term(c[2]))
        if k == "has":
            return contains(self.term(c[1]), self.term(c[2]))
        if k == "t":
            # an expression in condition position is a condition of its own: never the same object as another condition
            # (only VALUE sub-expressions are shared by the `share_terms` form) - unless the case asks for ONE expression
            # object in condition position and in value positions (share_terms == "all")
            if self.share_terms == "all":
                return self.term(c[1])
            return self._term(c[1])
        if k == "pf":
            return W.PREDICATE_FUNCS[c[1]](*[self.term(a) for a in c[2]])
        if k == "pc":
            args = [self.term(a) if isinstance(a, tuple) else W.CLASSES.get(a, a) for a in c[2]]
            return W.PREDICATE_CLASSES[c[1]](*args)
        if k == "and":
            return self.cond(c[1]) & self.cond(c[2])
        if k == "andf":
            return and_(*[self.cond(x) for x in c[1:]])
        if k == "or":
            return self.cond(c[1]) | self.cond(c[2])
        if k == "orf":
            return or_(*[self.cond(x) for x in c[1:]])
        if k == "not":
            return not_(self.cond(c[1]))
        if k == "inv":
            return ~self.cond(c[1])
        if k == "fa":
            return for_all(self.term(c[1]), self.cond(c[2]))
        if k == "sq":
            return self.query(c[1])
        raise ValueError(c)

    def query(self, q):
        _, quant, kind, sel, conds, vars_ = q
        self.declare(vars_)
        # the selection is written first (entity(x := T(...), conditions...)), so it is built first
        if kind in ("entity0", "setof0"):
            # written without entity()/set_of(): an(x, conditions...) / an([x, y], conditions...)
            built = self.term(sel) if kind == "entity0" else [self.term(s) for s in sel]
            cs = [self.cond(c) for c in conds]
            self.sel[q] = built
            return {"an": an, "the": the, "infer": infer}[quant](built, *cs)
        if kind == "entity":
            built = self.term(sel)
            cs = [self.cond(c) for c in conds]
            d = entity(built, *cs)
        else:
            built = [self.term(s) for s in sel]
            cs = [self.cond(c) for c in conds]
            d = set_of(built, *cs)
        self.sel[q] = built
        return {"an": an, "the": the, "infer": infer}[quant](d)


def build(q, world, inst, mode="query", predeclare=(), share_terms=False, share_conds=False):
    """Returns (query object, builder). Runs inside symbolic_mode() / rule_mode(), as a user would write it."""
    b = Builder(world, inst, share_terms=share_terms, share_conds=share_conds)
    with (rule_mode() if mode == "rule" else symbolic_mode()):
        b.declare(predeclare)
        obj = b.query(q)
    return obj, b


# ------------------------------------------------------------------------------------------------
# reference semantics (plain Python)
# ------------------------------------------------------------------------------------------------
class Ref:
    def __init__(self, world, inst, universals=()):
        self.world = world
        self.inst = inst
        self.udomains = {v[0]: self.domain(v) for v in universals}   # variables bound by for_all, not by the product

    def domain(self, var):
        name, style, clsname, domkey = var
        cls = W.CLASSES[clsname]
        seen = set()
        out = []
        # a variable declared without a domain ranges over every instance of the type (the world's objects are all there is)
        members = self.world[domkey] if style not in ("bare", "barecall") else [o for d in self.world.values() for o in d]
        for o in members:
            if isinstance(o, cls) and id(o) not in seen:
                seen.add(id(o))
                out.append(o)
        return out

    def value(self, t, env):
        k = t[0]
        if k == "v":
            return env[t[1]]
        if k == "a":
            return getattr(self.value(t[1], env), t[2])
        if k == "i":
            return self.value(t[1], env)[self.inst.v(t[2])]
        if k == "c":
            return getattr(self.value(t[1], env), t[2])(*[self.inst.v(a) for a in t[3]])
        if k == "l":
            return self.inst.v(t[1])
        if k == "pfv":
            return REF_PRED[t[1]](*[self.value(a, env) for a in t[2]])
        if k == "ob":
            return self.world[t[1]][t[2]]
        if k == "lb":
            return t[1] == "True"
        if k == "lfs":
            return frozenset(self.inst.v(e) for e in t[1:])
        if k == "ck":
            return getattr(self.value(t[1], env), t[2])(*[self.inst.v(a) for a in t[3]],
                                                        **{n: self.inst.v(a) for n, a in t[4]})
        if k == "fl":
            return env[t]           # bound by solutions(): one binding per inner element
        if k == "new":
            return W.CLASSES[t[1]](*[self.value(a, env) for a in t[2]], **{f: self.value(a, env) for f, a in t[3]})
        if k == "bound":
            return self.value(t[2], env)
        raise ValueError(t)

    def holds(self, c, env):
        k = c[0]
        if k == "cmp":
            return bool(OPS[c[1]](self.value(c[2], env), self.value(c[3], env)))
        if k == "in":
            return self.value(c[1], env) in self.value(c[2], env)
        if k == "has":
            return self.value(c[2], env) in self.value(c[1], env)
        if k == "t":
            return bool(self.value(c[1], env))
        if k == "pf":
            args = [self.value(a, env) for a in c[2]]
            return bool(REF_PRED[c[1]](*args))
        if k == "pc":
            args = [self.value(a, env) if isinstance(a, tuple) else W.CLASSES.get(a, a) for a in c[2]]
            return bool(REF_PRED[c[1]](*args))
        if k == "const":
            return c[1] == "True"
        if k in ("and", "andf"):
            return all(self.holds(x, env) for x in c[1:])
        if k in ("or", "orf"):
            return any(self.holds(x, env) for x in c[1:])
        if k in ("not", "inv"):
            return not self.holds(c[1], env)
        if k == "fa":
            return all(self.holds(c[2], {**env, **u}) for u in self.universal_values(c[1], env))
        if k == "sq":
            # existential reading of a sub-query used as a condition: its variables are the enclosing ones
            return all(self.holds(x, env) for x in c[1][4])
        raise ValueError(c)

    def universal_values(self, t, env):
        """for_all(t, c): t is a variable or an expression over one variable; one environment per value of t"""
        if t[0] == "fl":
            # the universal is the un-nested element of an expression over a variable that is bound: every element of it
            inner = self.value(t[1], env)
            for e in (list(inner) if (hasattr(inner, "__iter__") and not isinstance(inner, (str, bytes))) else [inner]):
                yield {t: e}
            return
        names = sorted(cond_vars(t))
        if len(names) == 1 and names[0] not in self.udomains:
            # an expression over a variable that is bound (x.t[0]): its one value
            yield {}
            return
        assert len(names) == 1, t
        for o in self.udomains[names[0]]:
            yield {names[0]: o}

    def solutions(self, q):
        """All assignments (dict name -> object) of q's declared variables, in product order, satisfying its conds."""
        _, quant, kind, sel, conds, vars_ = q
        doms = [self.domain(v) for v in vars_]
        names = [v[0] for v in vars_]
        fls = flatten_terms((sel, conds))
        out = []
        for combo in itertools.product(*doms):
            env0 = dict(zip(names, combo))
            for env in self.unnest(env0, fls):
                if all(self.holds(c, env) for c in conds):
                    out.append(env)
        return out

    def unnest(self, env, fls):
        """UNNEST: one environment per inner element of every flatten term (non-iterables count as one element)"""
        if not fls:
            yield env
            return
        t, rest = fls[0], fls[1:]
        inner = self.value(t[1], env)
        elems = list(inner) if (hasattr(inner, "__iter__") and not isinstance(inner, (str, bytes))) else [inner]
        for e in elems:
            env2 = dict(env)
            env2[t] = e
            yield from self.unnest(env2, rest)


def flatten_terms(x):
    """distinct flatten terms in order of first appearance (inner ones first)"""
    out = []
    universal = []      # flatten terms that a for_all ranges over are bound by the for_all, not un-nested into rows

    def walk(t):
        if isinstance(t, tuple):
            if len(t) == 3 and t[0] == "fa" and isinstance(t[1], tuple) and t[1][:1] == ("fl",):
                universal.append(t[1])
            for e in t:
                walk(e)
            if len(t) == 2 and t[0] == "fl" and t not in out:
                out.append(t)
    walk(x)
    return [t for t in out if t not in universal]


REF_PRED = {
    "p_val": lambda x: x.p,
    "s_val": lambda x: x.s,
    "p_eq": lambda x, k: x.p == k,
    "p_below": lambda x, limit=2: x.p < limit,
    "p_eq_nested": lambda x, k: x.p == k,
    "p_eq_inner": lambda x, k: x.p == k,
    "p_lt": lambda x, y: x.p < y.p,
    "val_eq": lambda v, k: v == k,
    "PEq": lambda x, k: x.p == k,
    "PLt": lambda x, y: x.p < y.p,
    "HasType": lambda x, t: isinstance(x, t),
}


# ------------------------------------------------------------------------------------------------
# normalisation of observations
# ------------------------------------------------------------------------------------------------
def norm(v):
    """Stable, hashable label of a result value: world objects by tag, everything else structurally."""
    if isinstance(v, tuple(W.CLASSES.values())):
        tag = getattr(v, "tag", None)
        if tag is not None:
            return ("o", tag)
        if isinstance(v, (W.Made, W.Made2)):
            return ("made", type(v).__name__, norm(v.a), norm(v.b), norm(getattr(v, "c", None)))
        if isinstance(v, (W.Part, W.Rev)):
            # (instances built by a rule head carry no tag: identified by their type and the values of their fields)
            return ("made", type(v).__name__, norm(v.k), norm(v.v), norm(getattr(v, "world", None)))
        return ("obj", type(v).__name__)
    if isinstance(v, (list, tuple)):
        return (type(v).__name__,) + tuple(norm(e) for e in v)
    if isinstance(v, dict):
        return ("dict",) + tuple(sorted((repr(k), norm(e)) for k, e in v.items()))
    return ("v", repr(v))


# ------------------------------------------------------------------------------------------------
# unparser
# ------------------------------------------------------------------------------------------------
def up_term(t, inst):
    k = t[0]
    if k == "v":
        return t[1]
    if k == "a":
        return f"{up_term(t[1], inst)}.{t[2]}"
    if k == "i":
        return f"{up_term(t[1], inst)}[{inst.v(t[2])!r}]"
    if k == "c":
        return f"{up_term(t[1], inst)}.{t[2]}({', '.join(repr(inst.v(a)) for a in t[3])})"
    if k == "pfv":
        return f"{t[1]}({', '.join(up_term(a, inst) for a in t[2])})"
    if k == "l":
        return repr(inst.v(t[1]))
    if k == "ob":
        return f"{t[1]}[{t[2]}]"
    if k == "lb":
        return t[1]
    if k == "lfs":
        return "frozenset({" + ", ".join(repr(inst.v(e)) for e in t[1:]) + "})"
    if k == "ck":
        args = [repr(inst.v(a)) for a in t[3]] + [f"{n}={inst.v(a)!r}" for n, a in t[4]]
        return f"{up_term(t[1], inst)}.{t[2]}({', '.join(args)})"
    if k == "fl":
        return f"flatten({up_term(t[1], inst)})"
    if k == "cc":
        return f"concatenate({up_term(t[1], inst)})"
    if k == "sub":
        return up_query(t[1], inst, nested=True)
    if k == "sub1":
        return "(S := " + up_query(t[1], inst, nested=True) + ")"
    if k == "new":
        args = [up_term(a, inst) for a in t[2]] + [f"{f}={up_term(a, inst)}" for f, a in t[3]]
        return f"{t[1]}({', '.join(args)})"
    if k == "pform":
        dom = [] if t[2] is None else [f"from_{t[2][1]}" if isinstance(t[2], tuple) else f"From({t[2]})"]
        args = dom + [up_term(a, inst) for a in t[3]] + [f"{f}={up_term(a, inst)}" for f, a in t[4]]
        return f"{t[1]}({', '.join(args)})"
    if k == "bound":
        return f"({t[1]} := {up_term(t[2], inst)})"
    raise ValueError(t)


def up_cond(c, inst):
    k = c[0]
    if k == "cmp":
        return f"({up_term(c[2], inst)} {OPSYM[c[1]]} {up_term(c[3], inst)})"
    if k == "in":
        return f"in_({up_term(c[1], inst)}, {up_term(c[2], inst)})"
    if k == "has":
        return f"contains({up_term(c[1], inst)}, {up_term(c[2], inst)})"
    if k == "t":
        return up_term(c[1], inst)
    if k == "const":
        return c[1]
    if k in ("pf", "pc"):
        return f"{c[1]}({', '.join(up_term(a, inst) if isinstance(a, tuple) else str(a) for a in c[2])})"
    if k == "and":
        return f"({up_cond(c[1], inst)} & {up_cond(c[2], inst)})"
    if k == "or":
        return f"({up_cond(c[1], inst)} | {up_cond(c[2], inst)})"
    if k == "andf":
        return f"and_({', '.join(up_cond(x, inst) for x in c[1:])})"
    if k == "orf":
        return f"or_({', '.join(up_cond(x, inst) for x in c[1:])})"
    if k == "not":
        return f"not_({up_cond(c[1], inst)})"
    if k == "inv":
        return f"~{up_cond(c[1], inst)}"
    if k == "fa":
        return f"for_all({up_term(c[1], inst)}, {up_cond(c[2], inst)})"
    if k == "sq":
        return up_query(c[1], inst, nested=True)
    raise ValueError(c)


def up_decl(v):
    name, style, clsname, domkey = v
    return {
        "let": f"{name} = let({clsname}, {domkey})",
        "letn": f"{name} = let({clsname}, {domkey}, name={name!r})",
        "from": f"{name} = {clsname}(From({domkey}))",
        "lettuple": f"{name} = let({clsname}, tuple({domkey}))",
        "letgen": f"{name} = let({clsname}, (o for o in {domkey}))",
        "let1": f"{name} = let({clsname}, {domkey}[0])",
        "from1": f"{name} = {clsname}(From({domkey}[0]))",
        "sharedfrom": f"{name} = {clsname}(from_{domkey})   # from_{domkey} = From({domkey}), one shared object",
        "bare": f"{name} = let({clsname})",
        "barecall": f"{name} = {clsname}()",
    }[style]


def up_query(q, inst, nested=False, mode="query"):
    _, quant, kind, sel, conds, vars_ = q
    cs = "".join(", " + up_cond(c, inst) for c in conds)
    if kind == "entity0":
        d = f"{up_term(sel, inst)}{cs}"
    elif kind == "setof0":
        d = f"[{', '.join(up_term(s, inst) for s in sel)}]{cs}"
    elif kind == "entity":
        d = f"entity({up_term(sel, inst)}{cs})"
    else:
        d = f"set_of([{', '.join(up_term(s, inst) for s in sel)}]{cs})"
    expr = f"{quant}({d})"
    if nested:
        return expr
    decls = "; ".join(up_decl(v) for v in all_vars(q))
    ctx = "rule_mode()" if mode == "rule" else "symbolic_mode()"
    return f"with {ctx}: {decls}{'; ' if decls else ''}q = {expr}"


def all_vars(q):
    """declared variables of q and of its nested queries, outermost first, each once"""
    seen = {}

    def walk(x):
        if isinstance(x, tuple):
            if x and x[0] == "Q":
                for v in x[5]:
                    seen.setdefault(v[0], v)
            for e in x:
                walk(e)
    walk(q)
    return list(seen.values())


def up_world(wspec, inst):
    lines = []
    for domkey, clsname, rows in wspec:
        items = []
        for i, row in enumerate(rows):
            if row and row[0] == "raw":
                items.append(repr(inst.v(row[1])))
            elif row and row[0] == "same":
                items.append(f"<{domkey}[{row[1]}] again>")
            else:
                cname = clsname
                if row and row[0] == "cls":
                    cname, row = row[1], row[2:]
                args = ", ".join(f"{f}={('<%s[%d]>' % (v[1], v[2])) if (isinstance(v, tuple) and len(v) == 3 and v[0] == '@') else repr(inst.v(v))}"
                                 for f, v in row)
                items.append(f"{cname}({args})")
        lines.append(f"{domkey} = [{', '.join(items)}]" + (f"  # rotated left by {inst.rot}" if inst.rot else ""))
    return "\n".join(lines)


# ------------------------------------------------------------------------------------------------
# small helpers on condition trees
# ------------------------------------------------------------------------------------------------
def cond_vars(c):
    out = set()

    def walk(x):
        if isinstance(x, tuple):
            if len(x) == 2 and x[0] == "v":
                out.add(x[1])
            else:
                for e in x:
                    walk(e)
    walk(c)
    return out


def depth(c):
    if c[0] in ("and", "or", "andf", "orf"):
        return 1 + max(depth(x) for x in c[1:])
    if c[0] in ("not", "inv"):
        return 1 + depth(c[1])
    return 0


def has_kind(c, kinds):
    if isinstance(c, tuple):
        if c and c[0] in kinds and not (len(c) == 2 and c[0] == "v"):
            return True
        return any(has_kind(e, kinds) for e in c)
    return False
