"""Mutation harness: apply a patch to a scratch copy of /repo (outside /repo and /verif), run the repository's suite there,
run the named checks against the copy, report, remove the copy.

    python -m eqlmc.mutate <patch-file> [--tier quick] [--reverse] C01 C03 ...

Prints one line per check: DETECTED / MISSED, and whether the suite stayed green (70 passed).
"""
import argparse
import os
import re
import shutil
import subprocess
import sys
import tempfile

from eqlmc import VERIF_ROOT


def run(cmd, cwd=None, env=None, timeout=3600):
    return subprocess.run(cmd, cwd=cwd, env=env, capture_output=True, text=True, timeout=timeout)


def main():
    ap = argparse.ArgumentParser()
    ap.add_argument("patch")
    ap.add_argument("props", nargs="*")
    ap.add_argument("--tier", default="quick")
    ap.add_argument("--reverse", action="store_true", help="apply the patch in reverse (e.g. undo a fix commit)")
    ap.add_argument("--skip-suite", action="store_true")
    ap.add_argument("--keep", action="store_true")
    ap.add_argument("--demo", default=None, help="demonstration program: must fail on the mutant and pass on /repo")
    a = ap.parse_intermixed_args()

    scratch = tempfile.mkdtemp(prefix="eqlmc_mut_", dir="/tmp")
    try:
        # the scratch copy is /repo's committed HEAD (not its working tree), so that experiments going on in /repo cannot
        # leak into a mutation run
        ar = subprocess.run(["git", "-C", "/repo", "archive", "HEAD", "src", "test", "pyproject.toml"], capture_output=True)
        if ar.returncode != 0:
            print("ARCHIVE-FAILED", ar.stderr.decode()[-300:])
            return 2
        subprocess.run(["tar", "-x", "-C", scratch], input=ar.stdout, check=True)
        cmd = ["patch", "-p1", "--no-backup-if-mismatch", "-i", os.path.abspath(a.patch)]
        if a.reverse:
            cmd.insert(1, "-R")
        p = run(cmd, cwd=scratch)
        if p.returncode != 0:
            print("PATCH-FAILED", p.stdout[-800:], p.stderr[-400:])
            return 2
        name = os.path.basename(a.patch)
        env = dict(os.environ, PYTHONPATH=os.path.join(scratch, "src"), PYTHONHASHSEED="0")
        suite = "skipped"
        if not a.skip_suite:
            p = run(["/venv/bin/python", "-m", "pytest", "-q", "-p", "no:cacheprovider", "--timeout=900",
                     "--continue-on-collection-errors"], cwd=scratch, env=env)
            m = re.search(r"(\d+) passed", p.stdout)
            f = re.search(r"(\d+) failed", p.stdout)
            loc = run(["/venv/bin/python", "-c", "import entity_query_language as e; print(e.__file__)"], cwd=scratch, env=env)
            if scratch not in loc.stdout:
                print("SUITE-NOT-ON-SCRATCH", loc.stdout)
                return 2
            suite = f"{m.group(1) if m else 0} passed, {f.group(1) if f else 0} failed"
        print(f"mutant={name} suite: {suite}  (baseline: 70 passed, 2 failed)")
        if a.demo:
            d1 = run(["/venv/bin/python", os.path.abspath(a.demo)], cwd=scratch, env=env, timeout=600)
            env0 = dict(os.environ, PYTHONPATH="/repo/src", PYTHONHASHSEED="0")
            d0 = run(["/venv/bin/python", os.path.abspath(a.demo)], cwd="/tmp", env=env0, timeout=600)
            print(f"  demo: on mutant rc={d1.returncode} ({'fails' if d1.returncode else 'PASSES?!'}), "
                  f"on /repo rc={d0.returncode} ({'passes' if d0.returncode == 0 else 'FAILS?!'})")
            if d1.returncode:
                print("      " + (d1.stderr.strip().splitlines() or d1.stdout.strip().splitlines() or ["?"])[-1][:200])
        env2 = dict(os.environ, EQLMC_REPO=scratch, PYTHONHASHSEED="0")
        env2.pop("PYTHONPATH", None)
        for pid in a.props:
            p = run(["/venv/bin/python", "-m", "eqlmc.runner", pid, "--tier", a.tier, "--no-evidence"], cwd=VERIF_ROOT,
                    env=env2)
            viol = [l for l in p.stdout.splitlines() if l.startswith("VIOLATION")]
            sigs = [l.strip() for l in p.stdout.splitlines() if l.strip().startswith("signature=")]
            last = p.stdout.strip().splitlines()[-1] if p.stdout.strip() else p.stderr[-300:]
            status = "DETECTED" if (p.returncode == 1 and viol) else ("HARNESS-ERROR" if p.returncode != 0 else "MISSED")
            print(f"  {pid}: {status} rc={p.returncode} violations_lines={len(viol)} {'; '.join(sigs[:4])}")
            print(f"      {last}")
            if status == "HARNESS-ERROR":
                print(p.stderr[-1500:])
        return 0
    finally:
        if not a.keep:
            shutil.rmtree(scratch, ignore_errors=True)
        # replays written while checking a mutant point into the mutant's behaviour; they live under replays/ (ignored)


if __name__ == "__main__":
    sys.exit(main())
