"""Helpers shared by the E1 property modules: datasets, leaf vocabularies, executing a query and classifying the
difference between the observed and the expected result."""
from __future__ import annotations

from collections import Counter

from . import qast as Q
from . import worlds as W
from .isolate import run_isolated

V = lambda n: ("v", n)            # noqa: E731
A = lambda t, a: ("a", t, a)      # noqa: E731
L = lambda v: ("l", v)            # noqa: E731
X = V("x")
Y = V("y")
Z = V("z")


# ------------------------------------------------------------------------------------------------
# the grid dataset: p, q in {1,2,3}^2 plus a twin of (2,2); every derived attribute is non-falsy
# ------------------------------------------------------------------------------------------------
def grid_row(p, q, child_dom=None, idx=None):
    row = [("p", p), ("q", q),
           ("s", "x" * p + "y" * q),
           ("t", (q, 3)),
           ("d", {"k": p, "b": q >= 2, "n": q}),
           ("flag", (p + q) % 2 == 0)]
    if child_dom is not None:
        row.append(("ref", ("@", child_dom, idx)))
    return tuple(row)


def grid_world(domkey="D", cls="Item", with_ref=True, pairs=None, kid_cls=None):
    pairs = pairs or [(p, q) for p in (1, 2, 3) for q in (1, 2, 3)] + [(2, 2)]
    out = []
    if with_ref:
        kids = tuple((("p", q), ("q", p), ("flag", p > q), ("s", "k" * q)) for p, q in pairs)
        out.append((domkey + "k", kid_cls or cls, kids))
    rows = tuple(grid_row(p, q, domkey + "k" if with_ref else None, i) for i, (p, q) in enumerate(pairs))
    out.append((domkey, cls, rows))
    return tuple(out)


# ------------------------------------------------------------------------------------------------
# single-variable leaf vocabulary (over variable x of class Item on the grid)
# ------------------------------------------------------------------------------------------------
def leaves_single(x=X):
    p, q = A(x, "p"), A(x, "q")
    out = []
    for op in ("eq", "ne", "lt", "le", "gt", "ge"):
        out.append(("cmp", op, p, L(2)))
        out.append(("cmp", op, L(2), p))
        out.append(("cmp", op, p, q))
    out += [
        ("in", p, A(x, "t")), ("has", A(x, "t"), p), ("in", L(2), A(x, "t")), ("has", A(x, "t"), L(1)),
        ("has", A(x, "s"), L("xx")), ("in", L("yy"), A(x, "s")), ("in", p, L((1, 3))), ("has", L((1, 3)), q),
        ("t", A(x, "flag")), ("t", A(A(x, "ref"), "flag")), ("t", ("i", A(x, "d"), "b")),
        ("t", ("c", x, "flagged", ())), ("t", ("c", x, "p_ge", (2,))), ("t", ("c", A(x, "ref"), "p_ge", (2,))),
        ("cmp", "eq", ("i", A(x, "d"), "k"), L(2)), ("cmp", "lt", A(A(x, "ref"), "p"), q),
        ("cmp", "ge", ("c", x, "get_p", ()), ("c", A(x, "ref"), "get_q", ())),
        ("cmp", "eq", ("i", A(x, "t"), 0), p), ("cmp", "ne", ("i", A(x, "s"), 0), L("y")),
        ("cmp", "eq", ("i", A(x, "t"), -1), L(3)), ("cmp", "gt", ("i", A(x, "t"), -2), L(1)),
        ("pf", "p_eq", (x, L(2))), ("pc", "PEq", (x, L(2))),
        # a user predicate whose second parameter has a default: the default used, a positional value given for it
        ("pf", "p_below", (x,)), ("pf", "p_below", (x, L(3))),
        # method calls with keyword arguments (the defaults lo=1, hi=3 would give a different answer)
        ("t", ("ck", x, "p_between", (), (("lo", 2),))), ("t", ("ck", x, "p_between", (), (("hi", 1),))),
        ("t", ("ck", x, "p_between", (2,), (("hi", 2),))), ("t", ("ck", A(x, "ref"), "p_between", (), (("lo", 2), ("hi", 2)))),
        # non-boolean values in condition position are read by their truthiness (all truthy here, so their negation is
        # false for every object)
        ("t", A(x, "t")), ("t", A(x, "s")), ("t", p), ("t", ("i", A(x, "d"), "k")), ("t", ("c", x, "get_p", ())),
        ("t", A(x, "ref")),
        # predicates over two expressions of the same variable: both arguments must come from one binding
        ("pf", "val_eq", (p, q)), ("pc", "PLt", (x, A(x, "ref"))),
    ]
    return out


REPRESENTATIVE_4 = [("cmp", "lt", A(X, "p"), L(2)), ("cmp", "eq", A(X, "p"), A(X, "q")),
                    ("t", A(X, "flag")), ("in", L(2), A(X, "t"))]
REPRESENTATIVE_8 = REPRESENTATIVE_4 + [("cmp", "ge", L(2), A(X, "q")), ("t", ("c", X, "p_ge", (3,))),
                                       ("cmp", "ne", ("i", A(X, "d"), "k"), A(X, "q")), ("pf", "p_eq", (X, L(1)))]


def to_fn_form(c):
    """same tree written with and_/or_/~ instead of & | not_"""
    k = c[0]
    if k == "and":
        return ("andf", to_fn_form(c[1]), to_fn_form(c[2]))
    if k == "or":
        return ("orf", to_fn_form(c[1]), to_fn_form(c[2]))
    if k == "not":
        return ("inv", to_fn_form(c[1]))
    return c


def root_kind(c):
    return {"andf": "and", "orf": "or", "inv": "not"}.get(c[0], c[0])


# ------------------------------------------------------------------------------------------------
# executing and comparing
# ------------------------------------------------------------------------------------------------
def exc_obs(e):
    # numbers in messages are node ids / addresses: process-dependent, so they are masked
    import re
    return ("EXC", type(e).__name__, re.sub(r"\d+", "#", str(e))[:160])


def eval_entity(q, world, inst, share_terms=False, share_conds=False):
    """build and fully evaluate an entity query; returns list of result objects or ('EXC', ...)"""
    try:
        obj, b = Q.build(q, world, inst, share_terms=share_terms, share_conds=share_conds)
        return list(obj.evaluate())
    except W.InjectedFault:
        raise
    except Exception as e:
        return exc_obs(e)


def eval_entity_after_partial(q, world, inst, share_terms=False, take=2, share_conds=False):
    """build an entity query; take `take` results of a FIRST evaluation and close the iterator, evaluate it fully, then
    once more; returns the two full results"""
    try:
        obj, b = Q.build(q, world, inst, share_terms=share_terms, share_conds=share_conds)
        it = obj.evaluate()
        for _ in range(take):
            next(it, None)
        it.close()
        return [list(obj.evaluate()), list(obj.evaluate())]
    except W.InjectedFault:
        raise
    except Exception as e:
        return [exc_obs(e), None]


def eval_rows(q, world, inst, share_conds=False, predeclare=()):
    """build and fully evaluate a set_of query; returns list of tuples (one value per selected term) or ('EXC', ...)"""
    try:
        obj, b = Q.build(q, world, inst, share_conds=share_conds, predeclare=predeclare)
        sel = b.sel[q]
        return [tuple(r[s] for s in sel) for r in obj.evaluate()]
    except Exception as e:
        return exc_obs(e)


def eval_rows_after_partial(q, world, inst, take=1):
    """build a set_of query; take `take` results of a FIRST evaluation and close the iterator, then evaluate it fully;
    returns that full result (a list of tuples or ('EXC', ...))"""
    try:
        obj, b = Q.build(q, world, inst)
        sel = b.sel[q]
        it = obj.evaluate()
        for _ in range(take):
            next(it, None)
        it.close()
        return [tuple(r[s] for s in sel) for r in obj.evaluate()]
    except Exception as e:
        return exc_obs(e)


def is_exc(x):
    return isinstance(x, tuple) and len(x) == 3 and x[0] == "EXC"


def ids(seq):
    return [id(o) for o in seq]


def diff_lists(got, exp, ordered=True):
    """classify the difference between two lists of objects compared by identity. None when equal."""
    if is_exc(got):
        return f"exc:{got[1]}"
    g, e = ids(got), ids(exp)
    if g == e:
        return None
    gs, es = set(g), set(e)
    if es - gs:
        return "missing"
    if gs - es:
        return "extra"
    if len(g) != len(e):
        return "duplicate"
    if sorted(g) == sorted(e):
        return "order" if ordered else None
    return "multiplicity"


def diff_rows(got, exp, count=True):
    """rows = tuples of values; compared as sets of label tuples (+ count / no duplicates when `count`)."""
    if is_exc(got):
        return f"exc:{got[1]}"
    g = [tuple(Q.norm(v) for v in r) for r in got]
    e = [tuple(Q.norm(v) for v in r) for r in exp]
    gs, es = set(g), set(e)
    if es - gs:
        return "missing"
    if gs - es:
        return "extra"
    if count and len(g) != len(e):
        return "duplicate" if len(g) > len(e) else "count"
    return None


def labels(seq):
    if is_exc(seq):
        return seq
    return [Q.norm(o) for o in seq]


def row_labels(rows):
    if is_exc(rows):
        return rows
    return sorted(Counter(tuple(Q.norm(v) for v in r) for r in rows).items())


# ------------------------------------------------------------------------------------------------
# multi-variable vocabulary: x over DA, y over DB, z over DC (class Item); y.ref points into DA
# ------------------------------------------------------------------------------------------------
def rich_world():
    da = ((("p", 1), ("q", 1)), (("p", 2), ("q", 1)), (("p", 3), ("q", 2)), (("p", 2), ("q", 3)))
    db = ((("p", 1), ("q", 2), ("ref", ("@", "DA", 0)), ("t", (1, 2))),
          (("p", 1), ("q", 3), ("ref", ("@", "DA", 2)), ("t", (3,))),
          (("p", 2), ("q", 2), ("ref", ("@", "DA", 1)), ("t", (2, 3))),
          (("p", 3), ("q", 1), ("ref", ("@", "DA", 1)), ("t", (1,))))
    dc = ((("p", 2), ("q", 1)), (("p", 3), ("q", 3)), (("p", 1), ("q", 2)))
    return (("DA", "Item", da), ("DB", "Item", db), ("DC", "Item", dc))


VARS3 = (("x", "let", "Item", "DA"), ("y", "let", "Item", "DB"), ("z", "let", "Item", "DC"))
VARS2 = VARS3[:2]
VARS_SELF = (("x", "let", "Item", "DA"), ("y", "let", "Item", "DA"))      # self-join: two variables, one domain


def leaves_xy():
    xp, xq, yp, yq = A(X, "p"), A(X, "q"), A(Y, "p"), A(Y, "q")
    return [
        ("cmp", "eq", xp, yp), ("cmp", "eq", yp, xp), ("cmp", "lt", xq, yq), ("cmp", "ge", yq, xp),
        ("cmp", "ne", xp, yq), ("cmp", "gt", xp, L(1)), ("cmp", "eq", yq, L(2)),
        ("cmp", "eq", A(A(Y, "ref"), "p"), xp), ("cmp", "eq", A(Y, "ref"), X), ("cmp", "ne", X, A(Y, "ref")),
        ("in", xp, A(Y, "t")), ("has", A(Y, "t"), xq),
        ("pf", "p_lt", (X, Y)), ("pc", "PLt", (X, Y)),
    ]


def leaves_xyz():
    return leaves_xy()[:7] + [("cmp", "eq", A(Y, "p"), A(Z, "p")), ("cmp", "ne", A(X, "p"), A(Z, "q")),
                              ("cmp", "ge", A(Z, "q"), L(2))]


def leaves_self():
    """x, y over the same domain"""
    return [("cmp", "ne", X, Y), ("cmp", "eq", X, Y), ("cmp", "lt", A(X, "p"), A(Y, "p")),
            ("cmp", "eq", A(X, "q"), A(Y, "q")), ("cmp", "gt", A(X, "p"), L(1))]


XY_REP = [("cmp", "eq", A(X, "p"), A(Y, "p")), ("cmp", "lt", A(X, "q"), A(Y, "q")), ("cmp", "gt", A(X, "p"), L(1)),
          ("cmp", "eq", A(Y, "q"), L(2))]


def tiny_domains(max_size, values=((1, 1), (1, 2), (2, 1), (2, 2))):
    """every multiset of <= max_size rows over the 2x2 value grid (incl. the empty domain)"""
    import itertools
    for n in range(0, max_size + 1):
        for combo in itertools.combinations_with_replacement(values, n):
            yield tuple((("p", p), ("q", q)) for p, q in combo)


def eval_after_abandoned(q, world, inst, mode="query", predeclare=(), take=1):
    """build, take `take` results of a first evaluation and close it, then evaluate fully: sorted (row labels, count)"""
    try:
        obj, b = Q.build(q, world, inst, mode=mode, predeclare=predeclare)
    except Exception as e:
        return exc_obs(e)
    sel = b.sel[q]
    try:
        it = obj.evaluate()
        for _ in range(take):
            next(it, None)
        it.close()
        if q[2] == "entity":
            rows = [(r,) for r in obj.evaluate()]
        else:
            rows = [tuple(r[s] for s in sel) for r in obj.evaluate()]
        return row_labels(rows)
    except Exception as e:
        return exc_obs(e)


def eval_twice(q, world, inst, mode="query", predeclare=()):
    """build once, evaluate the same query object twice; each observation is a sorted list of (row labels, count)"""
    try:
        obj, b = Q.build(q, world, inst, mode=mode, predeclare=predeclare)
    except Exception as e:
        return [exc_obs(e), exc_obs(e)]
    sel = b.sel[q]
    out = []
    for _ in range(2):
        try:
            if q[2] == "entity":
                rows = [(r,) for r in obj.evaluate()]
            else:
                rows = [tuple(r[s] for s in sel) for r in obj.evaluate()]
            out.append(row_labels(rows))
        except Exception as e:
            out.append(exc_obs(e))
    return out
