"""C12 - a rule tree selects, per match, the conclusion ripple-down rules prescribe.

Enumerated: ALL rule-tree shapes with <= n branch nodes (a node has at most one refinement child and one alternative
sibling: binary shapes, Catalan many), built exactly as documented with nested `with refinement(...)` /
`with alternative(...)` blocks, in both textual orders where a node has both; every node has its own propositional
condition (x.t[i] == 1) and one Add conclusion tagged i; base over one variable and over a two-variable join; written
as infer(entity(...)) and as an(entity(...)) + rule_mode(query); caching on and off; first evaluation and re-evaluation.
Data: valuation-complete (one object per valuation in {1,2}^n), so every combination of branch truth values occurs.
Oracle: 15-line recursive ripple-down interpreter; compared as a multiset of (type, tag, matched objects).
"""
from __future__ import annotations

import itertools

import eqlmc  # noqa: F401
from entity_query_language import (an, entity, let, infer, symbolic_mode, rule_mode, Add, refinement, alternative, and_,
                                   or_)

from .. import worlds as W
from .. import qast as Q
from ..common import exc_obs, is_exc
from ..isolate import run_isolated
from ..space import binary_shapes

ID = "C12"
ENGINE = "eqlmc-E1"
RULE = ("cases = (tree shape, textual order, base form, quantifier form, caching); all binary shapes with <= n nodes; "
        "each evaluated twice on valuation-complete data; non-trivial = the tree has at least two nodes"
        ' Wave 7: constant branch conditions (alternative(True), refinement(False)); disjunctions as branch conditions, data in which every valuation occurs twice, branches concluding with fewer variables than the base; both variables over one collection.')
ASSUMPTIONS = ["one conclusion per node, no next_rule, no two refinement siblings (outside the documented vocabulary)",
               "truth values encoded as 1/2 (non-falsy)"]
BATCH = 20
TASKS_PER_CHILD = 6


def label(t, counter):
    if t is None:
        return None
    i = counter[0]
    counter[0] += 1
    ref = label(t[0], counter)
    alt = label(t[1], counter)
    return (i, ref, alt)


def has_both(node):
    if node is None:
        return False
    return (node[1] is not None and node[2] is not None) or has_both(node[1]) or has_both(node[2])


def has_alt_chain(node):
    """is some alternative followed by a further alternative (so that nested and flat writing differ)?"""
    if node is None:
        return False
    i, ref, alt = node
    return (alt is not None and alt[2] is not None) or has_alt_chain(ref) or has_alt_chain(alt)


def max_alt_chain(node):
    """length of the longest chain of alternatives that follow one node"""
    if node is None:
        return 0
    i, ref, alt = node
    k, a = 0, alt
    while a is not None:
        k, a = k + 1, a[2]
    return max(k, max_alt_chain(ref), max_alt_chain(alt))


def chain_forest(k, style):
    """where the k alternatives of one chain are written: a forest over 0..k-1 whose pre-order is the chain order;
    (j, children) = alternative j is written in the block of its parent (a root: in the block of the node the chain
    belongs to), and `children` are written inside its own block, one after the other."""
    if style == "F" or k < 2:                 # all siblings
        return [(j, []) for j in range(k)]
    if style == "M" and k >= 3:               # the first one holds all the others, as siblings
        return [(0, [(j, []) for j in range(1, k)])]
    if style == "L" and k >= 3:               # siblings, the last one inside the one before it
        return [(j, []) for j in range(k - 2)] + [(k - 2, [(k - 1, [])])]
    if style == "K" and k >= 3:               # the second inside the first, the others siblings of the first
        return [(0, [(1, [])])] + [(j, []) for j in range(2, k)]
    f = []                                    # nested: each one inside the previous one
    for j in reversed(range(k)):
        f = [(j, f)]
    return f


def size(node):
    return 0 if node is None else 1 + size(node[1]) + size(node[2])


def rdr(node, val):
    """reference ripple-down interpreter: list of tags concluded for an object with valuation `val`"""
    i, ref, alt = node
    if val[i] == 1:
        concl = [i]
        if ref is not None:
            rc = rdr(ref, val)
            if rc:
                concl = rc
        return concl
    if alt is not None:
        return rdr(alt, val)
    return []


def bounds(tier):
    return {"max_nodes": 5 if tier == "quick" else 7, "orders": ["refinement first", "alternative first"],
            "bases": ["one variable", "two-variable join"], "forms": ["infer", "an + rule_mode(query)"]}


def cases(tier, inst):
    nmax = 5 if tier == "quick" else 7
    for n in range(1, nmax + 1):
        for sh in binary_shapes(n):
            node = label(sh, [0])
            orders = ("ra", "ar", "xa") if has_both(node) else ("ra",)
            if has_alt_chain(node):
                styles = "F" + ("MLK" if max_alt_chain(node) >= 3 else "")
                orders = orders + tuple(o + s for o in orders for s in styles)
            for order in orders:
                for base in ("one", "join"):
                    for form in ("an", "infer"):
                        for caching in (True, False):
                            if tier == "quick" and n == 5 and (form == "infer" or base == "join"):
                                continue
                            if n >= 7 and (base == "join" or form == "infer"):
                                continue
                            yield (node, order, base, form, caching)
    # branch conditions that are plain constants: alternative(True) is the "otherwise" branch, refinement(False) never fires
    for n in range(2, (4 if tier == "quick" else 5) + 1):
        for sh in binary_shapes(n):
            node = label(sh, [0])
            for j in range(1, n):
                for value in (True, False):
                    for base in ("one", "join"):
                        for form in ("an", "infer"):
                            yield ("const", node, "ra", base, form, ((j, value),), True)
            if n >= 3:
                for j, k_ in itertools.combinations(range(1, n), 2):
                    yield ("const", node, "ra", "one", "infer", ((j, True), (k_, False)), True)
                    yield ("const", node, "ar" if has_both(node) else "ra", "one", "an", ((j, False), (k_, True)), True)
    # two variables x, y; every node's condition is over x only, over y only or a comparison of both (all assignments
    # of these kinds); conclusions name both variables; an `assignment` is a pair (x, y)
    for n in range(1, (3 if tier == "quick" else 4) + 1):
        for sh in binary_shapes(n):
            node = label(sh, [0])
            for kinds in itertools.product(("x", "y", "xy"), repeat=n):
                if n == 4 and hash((sh, kinds)) % 3:
                    continue
                for base_binds in (True, False, "after", "orfirst"):
                    if not base_binds and kinds[0] != "xy":
                        continue         # the base condition itself names both variables, or an explicit comparison does
                    if base_binds == "after" and any(k_ != "x" for k_ in kinds[1:]):
                        # the false rows of such a base bind x only; a branch over y below would INTRODUCE y, and whether
                        # a node that introduces a variable fired is read per row or per x (same open question as for the
                        # z-join family): only branches over x here, y is reached through the conclusions alone
                        continue
                    for caching in ((True, False) if n <= 2 or tier == "thorough" else (True,)):
                        yield ("kjoin", node, kinds, base_binds, caching)
                        # both variables range over the SAME collection: (x=a, y=b) and (x=b, y=a) are two assignments
                        if caching and (n <= 3 or tier == "thorough"):
                            yield ("kjoin", node, kinds, base_binds, "xysame", caching)
                        # conclusions that name fewer variables than the branch conditions use
                        for pattern in ("xalt", "x"):
                            if n >= 2 and (caching or tier == "thorough"):
                                yield ("kjoin", node, kinds, base_binds, pattern, caching)
    # ... and branches whose condition is a DISJUNCTION over both variables (what a disjunction hands out twice it hands
    # out once: whether a refinement fires is still decided per assignment), with conclusions naming both / fewer variables
    for n in range(2, (3 if tier == "quick" else 4) + 1):
        for sh in binary_shapes(n):
            node = label(sh, [0])
            for kinds in itertools.product(("x", "xy", "o"), repeat=n):
                if "o" not in kinds or (n == 4 and hash((sh, kinds)) % 3):
                    continue
                # (a base that is a disjunction alone, base_binds False: its first side is true without binding y)
                for base_binds in ((True, False) if kinds[0] in ("xy", "o") else (True,)):
                    for pattern in ("xy", "xalt", "x", "xysame", "xtwin", "xytwin", "xreftwin"):
                        for caching in (True, False):
                            yield ("kjoin", node, kinds, base_binds, pattern, caching)
    # branches whose condition joins a further variable z (several z per x, taking different nested branches)
    for n in range(2, (4 if tier == "quick" else 5) + 1):
        for sh in binary_shapes(n):
            node = label(sh, [0])
            for kinds in kinds_for(node, n):
                for caching in (True, False):
                    yield ("zjoin", node, kinds, caching)


# ---------------------------------------------------------------- two variables, conditions over a subset of them
def kcond(kind, j, x, y, inst):
    if kind == "o":         # a disjunction over both variables
        return or_(x.t[j] == inst.v(1), y.t[j] == inst.v(1))
    if kind == "x":
        return x.t[j] == inst.v(1)
    if kind == "y":
        return y.t[j] == inst.v(1)
    return x.t[j] == y.t[j]


def kval(kind, j, xv, yv):
    """1 = the node's condition holds for the pair"""
    if kind == "o":
        return 1 if (xv[j] == 1 or yv[j] == 1) else 2
    if kind == "x":
        return 1 if xv[j] == 1 else 2
    if kind == "y":
        return 1 if yv[j] == 1 else 2
    return 1 if xv[j] == yv[j] else 2


def concludes_both(pattern, i, is_alternative):
    """which variables the conclusion of node i names: "xy" all of them; "xalt" only alternatives name y too (the base and
    the refinements conclude on x alone); "x" none of them names y"""
    return pattern in ("xy", "xysame", "xytwin") or (pattern == "xalt" and is_alternative) or (pattern == "xreftwin" and i == 0)


def build_ktree(node, kinds, x, y, views, inst, pattern="xy", is_alternative=False):
    i, ref, alt = node
    Add(views, W.Made(a=x, b=inst.v(i + 1), c=y) if concludes_both(pattern, i, is_alternative) else W.Made(a=x, b=inst.v(i + 1)))
    if ref is not None:
        with refinement(kcond(kinds[ref[0]], ref[0], x, y, inst)):
            build_ktree(ref, kinds, x, y, views, inst, pattern, is_alternative)
    if alt is not None:
        with alternative(kcond(kinds[alt[0]], alt[0], x, y, inst)):
            build_ktree(alt, kinds, x, y, views, inst, pattern, True)


def alternative_nodes(node, is_alternative=False, out=None):
    out = {} if out is None else out
    if node is not None:
        out[node[0]] = is_alternative
        alternative_nodes(node[1], is_alternative, out)
        alternative_nodes(node[2], True, out)
    return out


def kjoin_make_and_eval_twice(case, inst):
    if len(case) == 5:
        _, node, kinds, base_binds, caching = case
        pattern = "xy"
    else:
        _, node, kinds, base_binds, pattern, caching = case
    n = size(node)
    is_alt = alternative_nodes(node)

    def body():
        vals = list(itertools.product((1, 2), repeat=n))
        xs = [W.Item(p=inst.v(1), t=tuple(inst.v(v) for v in val), tag="x" + "".join(map(str, val))) for val in vals]
        ys = [W.Item(p=inst.v(1), t=tuple(inst.v(v) for v in val), tag="y" + "".join(map(str, val))) for val in vals]
        if pattern == "xysame":
            ys = xs
        yvals = vals
        if pattern in ("xtwin", "xytwin", "xreftwin"):
            # every valuation twice among the y: two assignments (x, y), (x, y') that agree on everything a condition reads
            ys = ys + [W.Item(p=inst.v(1), t=tuple(inst.v(v) for v in val), tag="w" + "".join(map(str, val))) for val in vals]
            yvals = vals + vals
        exp = []
        for xo, xv in zip(xs, vals):
            for yo, yv in zip(ys, yvals):
                val = tuple(kval(kinds[j], j, xv, yv) for j in range(n))
                for tag in rdr(node, val):
                    both = concludes_both(pattern, tag, is_alt[tag])
                    exp.append(repr(("made", "Made", Q.norm(xo), Q.norm(inst.v(tag + 1)), Q.norm(yo if both else None))))
        if pattern not in ("xy", "xysame", "xytwin"):
            exp = sorted(set(exp))     # a conclusion that names x alone: how often it is drawn per x is not prescribed
        exp.sort()
        try:
            with symbolic_mode():
                x, y = let(W.Item, xs), let(W.Item, ys)
                views = let(W.View)
                c0 = kcond(kinds[0], 0, x, y, inst)
                if base_binds == "orfirst":
                    # a disjunction over both variables first (its first side false, its second side true for every
                    # pair), then the node's own condition
                    c0 = and_(or_(x.p > y.p, x.p == y.p), c0)
                elif base_binds == "after":
                    # the node's own condition first, then a comparison naming both variables (true for every pair)
                    c0 = and_(c0, x.p == y.p)
                elif base_binds:
                    # the base names both variables (a comparison that is true for every pair), then its own condition
                    c0 = and_(x.p == y.p, c0)
                q = an(entity(views, c0))
            with rule_mode(q):
                build_ktree(node, kinds, x, y, views, inst, pattern)
        except Exception as e:
            return [("build",) + exc_obs(e)], exp
        out = []
        for _ in range(2):
            try:
                rows = sorted(repr(Q.norm(r)) for r in q.evaluate())
                out.append(sorted(set(rows)) if pattern not in ("xy", "xysame", "xytwin") else rows)
            except Exception as e:
                out.append(exc_obs(e))
        return out, exp

    return run_isolated(body, caching=caching)


def build_tree(node, x, y, views, order, inst, inner=None, consts=None):
    """`inner`: None when the node starts a chain (base or refinement), else the forest of the alternatives of the chain
    it belongs to that are written inside its block."""
    i, ref, alt = node
    Add(views, W.Made(a=x, b=inst.v(i + 1), c=y) if y is not None else W.Made(a=x, b=inst.v(i + 1)))

    def cond(j):
        # every branch binds the variables its conclusion uses (as in the documented examples): in the join base the
        # branch condition mentions y too (several conditions to refinement()/alternative() are chained with AND)
        c = [x.t[j] == inst.v(1)] if not consts or j not in consts else [consts[j]]     # (a plain bool: "otherwise")
        if y is not None:
            c.append(y.p >= inst.v(1))
        return c

    def do_ref():
        if ref is not None:
            with refinement(*cond(ref[0])):
                build_tree(ref, x, y, views, order, inst, consts=consts)

    def write(forest, chain):
        for j, children in forest:
            with alternative(*cond(chain[j][0])):
                build_tree(chain[j], x, y, views, order, inst, inner=(children, chain), consts=consts)

    def do_alt():
        if inner is not None:
            write(*inner)
        elif alt is not None:
            chain, a = [], alt
            while a is not None:
                chain.append(a)
                a = a[2]
            write(chain_forest(len(chain), order[2:]), chain)

    if order.startswith("ra"):
        do_ref()
        do_alt()
    elif order.startswith("xa"):
        # interleaved: the first alternative written in this block, then the refinement, then the other alternatives
        if inner is not None:
            forest, chain = inner
        elif alt is not None:
            chain, a = [], alt
            while a is not None:
                chain.append(a)
                a = a[2]
            forest = chain_forest(len(chain), order[2:])
        else:
            forest, chain = [], []
        write(forest[:1], chain)
        do_ref()
        write(forest[1:], chain)
    else:
        do_alt()
        do_ref()


def make_and_eval_twice(case, inst):
    """build the rule query of `case` on fresh data and evaluate it twice -> ([obs1, obs2], expected)"""
    consts = None
    if case[0] == "const":
        _, node, order, base, form, consts, caching = case
        consts = dict(consts)
    else:
        node, order, base, form, caching = case
    n = size(node)

    def body():
        xs = [W.Item(t=tuple(inst.v(v) for v in val), tag=f"v{''.join(map(str, val))}")
              for val in itertools.product((1, 2), repeat=n)]
        # (a branch whose condition is the constant True / False fires / does not fire whatever the object's bit says)
        fix = lambda val: tuple((1 if consts[j] else 2) if consts and j in consts else v for j, v in enumerate(val))   # noqa: E731
        vals = {id(o): fix(val) for o, val in zip(xs, itertools.product((1, 2), repeat=n))}
        ys = [W.Item(p=inst.v(1), tag="y0"), W.Item(p=inst.v(2), tag="y1")] if base == "join" else None
        exp = []
        for o in xs:
            for tag in rdr(node, vals[id(o)]):
                for yo in (ys or [None]):
                    exp.append(repr(("made", "Made", Q.norm(o), Q.norm(inst.v(tag + 1)), Q.norm(yo))))
        exp.sort()
        try:
            with symbolic_mode():
                x = let(W.Item, xs)
                y = let(W.Item, ys) if ys else None
                views = let(W.View)
                c0 = x.t[0] == inst.v(1)
                bc = and_(c0, y.p >= inst.v(1)) if ys else c0
                q = (infer if form == "infer" else an)(entity(views, bc))
            with rule_mode(q):
                build_tree(node, x, y, views, order, inst, consts=consts)
        except Exception as e:
            return [("build",) + exc_obs(e)], exp
        out = []
        for _ in range(2):
            try:
                out.append(sorted(repr(Q.norm(r)) for r in q.evaluate()))
            except Exception as e:
                out.append(exc_obs(e))
        return out, exp

    return run_isolated(body, caching=caching)


# ---------------------------------------------------------------- branches that join a further variable
def rdr_join(node, kinds, env, links):
    """ripple-down semantics when a branch condition may bind a further variable z (kind 'z': z.ref == x and z.t[i] == 1):
    the node fires once per extension of the environment that satisfies its condition; each extension gets the node's
    conclusion unless its refinement fires under it; the alternative is tried only if the node did not fire at all.
    Returns a list of (tag, environment)."""
    i, ref, alt = node
    if kinds[i] == "x":
        exts = [env] if env["x"][1][i] == 1 else []
    elif "z" in env:
        exts = [env] if env["z"][1][i] == 1 else []
    else:
        exts = [dict(env, z=z) for z in links[env["x"][0]] if z[1][i] == 1]
    if exts:
        out = []
        for e in exts:
            rc = rdr_join(ref, kinds, e, links) if ref is not None else []
            out += rc if rc else [(i, e)]
        return out
    return rdr_join(alt, kinds, env, links) if alt is not None else []


def build_join_tree(node, kinds, x, z, views, z_bound, inst):
    i, ref, alt = node
    own_bound = z_bound or kinds[i] == "z"
    Add(views, W.Made(a=x, b=inst.v(i + 1), c=z) if own_bound else W.Made(a=x, b=inst.v(i + 1)))

    def cond(j):
        if kinds[j] == "x":
            return [x.t[j] == inst.v(1)]
        return [z.ref == x, z.t[j] == inst.v(1)]

    if ref is not None:
        with refinement(*cond(ref[0])):
            build_join_tree(ref, kinds, x, z, views, own_bound, inst)
    if alt is not None:
        with alternative(*cond(alt[0])):
            build_join_tree(alt, kinds, x, z, views, z_bound, inst)


def permute(lst, mode):
    if mode == 1:
        return lst[::-1]
    if mode == 2 and len(lst) > 1:
        return lst[1:] + lst[:1]
    return lst


def join_make_and_eval_twice(case, inst, xperm=0, zperm=0):
    _, node, kinds, caching = case
    n = size(node)
    xbits = [i for i in range(n) if kinds[i] == "x"]
    zbits = [i for i in range(n) if kinds[i] == "z"]

    def body():
        xs, zs, links = [], [], {}
        for xv in itertools.product((1, 2), repeat=len(xbits)):
            xval = [1] * n
            for b, v in zip(xbits, xv):
                xval[b] = v
            xo = W.Item(t=tuple(inst.v(v) for v in xval), tag="x" + "".join(map(str, xv)))
            xs.append(xo)
            links[id(xo)] = []
            for zv in itertools.product((1, 2), repeat=len(zbits)):
                zval = [1] * n
                for b, v in zip(zbits, zv):
                    zval[b] = v
                zo = W.Item(t=tuple(inst.v(v) for v in zval), ref=xo, tag=f"z{''.join(map(str, xv))}_{''.join(map(str, zv))}")
                zs.append(zo)
                links[id(xo)].append((zo, tuple(zval)))
            links[id(xo)] = list(reversed(links[id(xo)])) if len(xs) % 2 == 0 else links[id(xo)]
        # z domain order: interleave so that different nested branches alternate
        zs_sorted = sorted(zs, key=lambda o: o.tag[::-1])
        exp = []
        for xo in xs:
            xval = tuple(1 if v == inst.v(1) else 2 for v in xo.t)
            lk = {id(xo): [(zo, zval) for zo, zval in links[id(xo)]]}
            for tag, env in rdr_join(node, kinds, {"x": (id(xo), xval)}, lk):
                zo = env.get("z")
                exp.append(repr(("made", "Made", Q.norm(xo), Q.norm(inst.v(tag + 1)), Q.norm(zo[0] if zo else None))))
        exp.sort()
        try:
            with symbolic_mode():
                x = let(W.Item, permute(xs, xperm))
                z = let(W.Item, permute(zs_sorted, zperm))
                views = let(W.View)
                q = an(entity(views, x.t[0] == inst.v(1)))
            with rule_mode(q):
                build_join_tree(node, kinds, x, z, views, False, inst)
        except Exception as e:
            return [("build",) + exc_obs(e)], exp
        out = []
        for _ in range(2):
            try:
                out.append(sorted(repr(Q.norm(r)) for r in q.evaluate()))
            except Exception as e:
                out.append(exc_obs(e))
        return out, exp

    return run_isolated(body, caching=caching)


def introduces_z_with_alternative(node, kinds, z_bound=False):
    """does some node that INTRODUCES z (kind z, z not bound on entry) have an alternative?  Whether such a node `fired`
    for the purposes of its alternative is read per (x, z) row by the library and could as well be read per x; the
    statement does not settle it, so these trees are left out of the space."""
    if node is None:
        return False
    i, ref, alt = node
    own = z_bound or kinds[i] == "z"
    if kinds[i] == "z" and not z_bound and alt is not None:
        return True
    return introduces_z_with_alternative(ref, kinds, own) or introduces_z_with_alternative(alt, kinds, z_bound)


def kinds_for(node, n, unambiguous_only=True):
    """every assignment of a kind (condition on x / join with z) to the non-base nodes, at least one z"""
    for ks in itertools.product("xz", repeat=n - 1):
        if "z" in ks and not (unambiguous_only and introduces_z_with_alternative(node, ("x",) + ks)):
            yield ("x",) + ks


def run_case(case, inst):
    if case[0] == "zjoin":
        _, node, kinds, caching = case
        n = size(node)
        out, exp = join_make_and_eval_twice(case, inst)
        order, base, form = "ra", "zjoin:" + "".join(kinds), "an"
    elif case[0] == "kjoin":
        node, kinds, base_binds, caching = case[1], case[2], case[3], case[-1]
        n = size(node)
        out, exp = kjoin_make_and_eval_twice(case, inst)
        order, base, form = "ra", "kjoin:" + "/".join(kinds) + ("+bind" if base_binds else "") + (
            "+concl=" + case[4] if len(case) == 6 else ""), "an"
    elif case[0] == "const":
        _, node, order, base, form, consts, caching = case
        n = size(node)
        out, exp = make_and_eval_twice(case, inst)
        base = base + ":const=" + ",".join(f"{j}{'T' if v else 'F'}" for j, v in consts)
    else:
        node, order, base, form, caching = case
        n = size(node)
        out, exp = make_and_eval_twice(case, inst)
    res = {"ok": True, "nontrivial": n >= 2, "transitions": 2,
           "tags": [f"nodes={n}", f"order={order}", f"base={base}", f"form={form}", f"caching={'on' if caching else 'off'}"]
                   + (["ref_under_ref"] if node[1] and node[1][1] else [])
                   + (["ref_under_alt"] if _ref_under_alt(node, False) else [])
                   + (["alt_under_ref"] if node[1] and node[1][2] else []),
           "outcome": str(len(exp))}
    for k, got in enumerate(out):
        if got != exp:
            if is_exc(got) or (got and isinstance(got, tuple) and got[0] == "build"):
                kind = "exc:" + (got[1] if got[0] == "EXC" else got[2])
            else:
                gs, es = set(got), set(exp)
                kind = "missing" if es - gs else ("extra" if gs - es else "multiplicity")
            res.update(ok=False, sig=f"eval{k + 1}:{kind}/{shape_class(node)}/{order}/{form}/cache={'on' if caching else 'off'}",
                       obs=got if is_exc(got) else ("only-in-observed", sorted(set(got) - set(exp))[:6], "only-in-expected",
                                                    sorted(set(exp) - set(got))[:6], "counts", len(got), len(exp)),
                       exp="ripple-down interpreter")
            break
    return res


def _ref_under_alt(node, under_alt):
    if node is None:
        return False
    i, ref, alt = node
    if under_alt and ref is not None:
        return True
    return _ref_under_alt(ref, False) or _ref_under_alt(alt, True)


def shape_class(node):
    f = []
    if node[1] and node[1][1]:
        f.append("ref-under-ref")
    if _ref_under_alt(node, False):
        f.append("ref-under-alt")
    if node[1] and node[1][2]:
        f.append("alt-under-ref")
    if has_both(node):
        f.append("both")
    return "+".join(f) or "simple"


def show(node, inst, depth=1, ycond="", order="ra", inner=None):
    i, ref, alt = node
    pad = "    " * depth
    s = f"{pad}Add(views, Made(a=x, b={inst.v(i + 1)}))\n"
    r = a = ""
    if ref is not None:
        r = f"{pad}with refinement(x.t[{ref[0]}] == {inst.v(1)}{ycond}):\n" + show(ref, inst, depth + 1, ycond, order)

    def write(forest, chain):
        out = ""
        for j, children in forest:
            out += (f"{pad}with alternative(x.t[{chain[j][0]}] == {inst.v(1)}{ycond}):\n"
                    + show(chain[j], inst, depth + 1, ycond, order, inner=(children, chain)))
        return out

    if inner is not None:
        a = write(*inner)
    elif alt is not None:
        chain, n = [], alt
        while n is not None:
            chain.append(n)
            n = n[2]
        a = write(chain_forest(len(chain), order[2:]), chain)
    return s + (r + a if order.startswith("ra") else a + r)


def describe(case, inst):
    if case[0] == "kjoin":
        node, kinds, base_binds, caching = case[1], case[2], case[3], case[-1]
        pattern = case[4] if len(case) == 6 else "xy"
        return (f"{'enable' if caching else 'disable'}_caching()\n# rule tree {node} (node = (index, refinement, alternative)); "
                f"node kinds {kinds}: 'x' = condition x.t[i] == 1, 'y' = y.t[i] == 1, 'xy' = x.t[i] == y.t[i];\n"
                "# xs, ys = one Item(p=1, t=val) per valuation in {1,2}^n each; q = an(entity(views := let(View), "
                + ("and_(or_(x.p > y.p, x.p == y.p), <condition of node 0>)" if base_binds == "orfirst" else
                   "and_(<condition of node 0>, x.p == y.p)" if base_binds == "after" else
                   ("and_(x.p == y.p, <condition of node 0>)" if base_binds else "<condition of node 0>")) + "));\n"
                "# nested `with refinement(<cond>)` / `with alternative(<cond>)` blocks as in the tree, conclusions "
                "Add(views, Made(a=x, b=i+1, c=y))" + {"xy": "", "xalt": "; base and refinements conclude Made(a=x, b=i+1) only",
                                                      "x": "; every conclusion is Made(a=x, b=i+1) only",
                                                      "xysame": "; ys IS xs (both variables over one collection)",
                                                      "xtwin": "; every conclusion is Made(a=x, b=i+1) only; ys holds every valuation TWICE",
                                                      "xytwin": "; ys holds every valuation TWICE",
                                                      "xreftwin": "; only the base names y, the branches conclude Made(a=x, b=i+1); ys holds every valuation TWICE"}[pattern] + "\n"
                "rows1 = list(q.evaluate()); rows2 = list(q.evaluate())   # expected: ripple-down semantics per pair (x, y)"
                + (" (compared as sets)" if pattern not in ("xy", "xysame", "xytwin") else ""))
    if case[0] == "zjoin":
        _, node, kinds, caching = case
        return (f"{'enable' if caching else 'disable'}_caching()\n# rule tree {node} (node = (index, refinement, alternative)); "
                f"node kinds {kinds}: 'x' = condition x.t[i] == 1, 'z' = refinement/alternative(z.ref == x, z.t[i] == 1);\n"
                "# xs = one Item per valuation of the x-kind bits, zs = for every x one Item(ref=x) per valuation of the z-kind "
                "bits; q = an(entity(views := let(View), x.t[0] == 1)); conclusions Add(views, Made(a=x, b=i+1[, c=z]))\n"
                "rows1 = list(q.evaluate()); rows2 = list(q.evaluate())   # expected: eqlmc.props.c12.rdr_join")
    note = ""
    if case[0] == "const":
        _, node, order, base, form, consts, caching = case
        note = ("# the condition x.t[j] == 1 of these branches is replaced by a plain constant: "
                + ", ".join(f"branch {j}: {v}" for j, v in consts) + "\n")
    else:
        node, order, base, form, caching = case
    n = size(node)
    return (note + f"{'enable' if caching else 'disable'}_caching()\n"
            f"xs = [Item(t=val) for val in itertools.product(({inst.v(1)}, {inst.v(2)}), repeat={n})]"
            + (f"; ys = [Item(p={inst.v(1)}), Item(p={inst.v(2)})]" if base == "join" else "") + "\n"
            f"with symbolic_mode(): x = let(Item, xs); " + ("y = let(Item, ys); " if base == "join" else "")
            + f"views = let(View); q = {form}(entity(views, x.t[0] == {inst.v(1)}"
            + (f", y.p >= {inst.v(1)}" if base == "join" else "") + "))\n"
            "with rule_mode(q):" + ("   # blocks written alternative-first where a node has both" if order.startswith("ar") else "") + "\n"
            + show(node, inst, 1, f", y.p >= {inst.v(1)}" if base == "join" else "", order) + "rows1 = list(q.evaluate()); rows2 = list(q.evaluate())   # expected: ripple-down semantics"
            + ("; Made(..., c=y) for every y" if base == "join" else ""))
