"""C07 - evaluation is demand-driven and consumes lazily supplied domains only as needed.

Engine E2.  A single-variable query over a domain supplied as a LOGGING ONE-SHOT ITERATOR (by let(T, it) and by
T(From(it)) with non-instances interleaved) x condition trees (incl. the empty condition and user-predicate leaves) x
every history of {take 1 / take 2 / take 3 results then close, evaluate fully} up to the tier's length.
Monitored on every evaluation of the history:
  * between evaluate() and the first next(): nothing is pulled from the iterator and no user predicate is called
    (also: nothing is pulled while the query is built);
  * when the k-th result is delivered, the number of elements pulled so far is exactly
    max(pulled before this evaluation, position of the k-th qualifying element + 1) - never further ahead;
  * the k-th result IS the k-th qualifying element (domain order), a full evaluation returns all of them, whatever
    partial evaluations preceded it (no element lost, none pulled twice: the iterator is one-shot, so anything the
    library needs again must come from its own memo).
"""
from __future__ import annotations

import eqlmc  # noqa: F401
from entity_query_language import symbolic_mode

from .. import qast as Q
from .. import worlds as W
from ..common import X, REPRESENTATIVE_8, REPRESENTATIVE_4, grid_world, exc_obs, root_kind, to_fn_form, leaves_single
from ..isolate import run_isolated
from ..space import trees_by_depth, sequences
from ..worlds import build_world

ID = "C07"
ENGINE = "eqlmc-E2"
TECHNIQUE = ("stateless exploration of every partial/full evaluation history of a query over a logging one-shot iterator, "
             "pull log compared with the lazy reference (prefix ending at the k-th qualifying element) at every result")
RULE = ("cases = (declaration style, condition tree or none, history of take-k-close / full evaluations); all trees x all "
        "histories up to the length bound; non-trivial = the history has a partial evaluation followed by another "
        "evaluation and the condition selects some but not all elements")
ASSUMPTIONS = ["the k-th qualifying element is defined by the Python oracle; non-instances interleaved in the iterator "
               "are skipped by the type filter but count as pulled elements"]
BATCH = 150

GRID = grid_world("D")
OPS = ("T1", "T2", "T3", "F")


class LoggingIter:
    """a one-shot iterator that records every element handed out"""

    def __init__(self, data):
        self._it = iter(data)
        self.pulled = []

    def __iter__(self):
        return self

    def __next__(self):
        v = next(self._it)
        self.pulled.append(v)
        return v


def bounds(tier):
    return {"history_length": 2 if tier == "quick" else 3, "tree_depth": 1 if tier == "quick" else 2,
            "declarations": ["let(T, it)", "T(From(it)) with non-instances interleaved"]}


def cases(tier, inst):
    thorough = tier == "thorough"
    # every leaf form of the single-variable vocabulary (alone and negated), then all depth<=1 trees over 8 leaves
    full = leaves_single()
    trees = [None] + full + [("not", l) for l in full] + [t for t in trees_by_depth(REPRESENTATIVE_8, 1) if t not in full
                                                           and not (t[0] == "not" and t[1] in full)]
    # a leaf of the full vocabulary as the first / second conjunct or disjunct (which operand binds the variable first)
    for l in full:
        if l not in REPRESENTATIVE_8:
            trees += [("and", l, REPRESENTATIVE_8[0]), ("and", REPRESENTATIVE_8[0], l), ("or", l, REPRESENTATIVE_8[2])]
    if thorough:
        trees += [t for t in trees_by_depth(REPRESENTATIVE_4, 2) if Q.depth(t) == 2]
    hists = list(sequences(OPS, 3 if thorough else 2, 1))
    if not thorough:
        hists += [("T1", "T1", "F"), ("T2", "T1", "F"), ("T1", "T3", "T2"), ("T1", "F", "F")]
    for t in trees:
        for style in ("let", "from"):
            for h in hists:
                if t is not None and Q.depth(t) == 2 and len(h) == 3 and hash((t, h)) % 4:
                    continue
                yield (style, t, h)
    # two queries over ONE variable whose domain is the one-shot iterator, both result iterators alive and advanced
    # alternately in every order (then drained): each sees all its qualifying elements, nothing is pulled twice or ahead
    reps = REPRESENTATIVE_8 if thorough else REPRESENTATIVE_8[:5]
    for t1 in reps:
        for t2 in reps + [None]:
            for sched in sequences("12", 5 if thorough else 4, 1):
                yield ("@interleaved", t1, t2, "".join(sched))


def run_interleaved(case, inst):
    _, t1, t2, sched = case

    def body():
        from entity_query_language import let, an, entity
        world = build_world(GRID, inst)
        items = world["D"]
        it = LoggingIter(list(items))
        ref = Q.Ref(world, inst)
        quals = [[o for o in items if t is None or ref.holds(t, {"x": o})] for t in (t1, t2)]
        pos = {id(o): i for i, o in enumerate(items)}
        b = Q.Builder(world, inst)
        with symbolic_mode():
            b.env["x"] = let(W.Item, it)
            x = b.env["x"]
            qs = [an(entity(x, b.cond(t))) if t is not None else an(entity(x)) for t in (t1, t2)]
        if it.pulled:
            return ("work-at-build", 0, None, len(it.pulled), 0), 0
        gens = [q.evaluate() for q in qs]
        if it.pulled:
            return ("work-before-first-next", 0, None, len(it.pulled), 0), 0
        nxt = [0, 0]
        done = [False, False]
        trans = 0
        steps = [int(c) - 1 for c in sched] + [0] * (len(items) + 1) + [1] * (len(items) + 1)     # then drain both
        for si, k in enumerate(steps):
            if done[k]:
                continue
            before = len(it.pulled)
            trans += 1
            try:
                r = next(gens[k])
            except StopIteration:
                done[k] = True
                if nxt[k] != len(quals[k]):
                    return ("missing-results", si, f"N{k + 1}", nxt[k], len(quals[k])), trans
                if len(it.pulled) != len(items):
                    return ("exhausted-without-reading-the-domain", si, f"N{k + 1}", len(it.pulled), len(items)), trans
                continue
            except Exception as e:
                return ("next-raised", si, f"N{k + 1}", exc_obs(e), "a result"), trans
            if nxt[k] >= len(quals[k]) or r is not quals[k][nxt[k]]:
                return ("wrong-result", si, f"N{k + 1}", Q.norm(r),
                        Q.norm(quals[k][nxt[k]]) if nxt[k] < len(quals[k]) else "StopIteration"), trans
            exp_pulled = max(before, pos[id(r)] + 1)
            if len(it.pulled) != exp_pulled:
                return ("pulled-ahead" if len(it.pulled) > exp_pulled else "pulled-less", si, f"N{k + 1}",
                        len(it.pulled), exp_pulled), trans
            nxt[k] += 1
        if len(set(map(id, it.pulled))) != len(it.pulled):
            return ("pulled-twice", len(steps), None, len(it.pulled), len(set(map(id, it.pulled)))), trans
        return None, trans

    bad, trans = run_isolated(body)
    res = {"ok": bad is None, "nontrivial": "1" in sched and "2" in sched, "transitions": trans,
           "tags": ["interleaved_iterators", f"len={len(sched)}"], "outcome": "interleaved"}
    if bad is not None:
        kind, si, op, got, exp = bad
        res.update(sig=f"interleaved:{kind}/{op}", obs=(f"step {si + 1} of schedule {sched} (+ drain)", got), exp=exp)
    return res


def run_case(case, inst):
    if case[0] == "@interleaved":
        return run_interleaved(case, inst)
    style, tree, hist = case
    q = ("Q", "an", "entity", X, (tree,) if tree else (), ())

    def body():
        world = build_world(GRID, inst)
        items = world["D"]
        if style == "from":
            physical = []
            for i, o in enumerate(items):
                physical.append(o)
                if i % 3 == 0:
                    physical.append(f"junk{i}")      # non-instances interleaved
        else:
            physical = list(items)
        it = LoggingIter(physical)
        ref = Q.Ref(world, inst)
        qual = [o for o in items if all(ref.holds(c, {"x": o}) for c in q[4])]
        pos = [next(i for i, p in enumerate(physical) if p is o) for o in qual]      # physical index of each qualifier
        W.LOG.reset()
        try:
            b = Q.Builder(world, inst)
            with symbolic_mode():
                if style == "let":
                    from entity_query_language import let
                    b.env["x"] = let(W.Item, it)
                else:
                    from entity_query_language import From
                    b.env["x"] = W.Item(From(it))
                obj = b.query(q)
        except Exception as e:
            return ("build-raised", 0, None, exc_obs(e), "no exception"), 0, len(qual), len(items)
        if it.pulled or W.LOG.calls:
            return ("work-at-build", 0, None, (len(it.pulled), len(W.LOG.calls)), (0, 0)), 0, len(qual), len(items)
        trans = 0
        for hi, op in enumerate(hist):
            before = len(it.pulled)
            W.LOG.reset()
            try:
                gen = obj.evaluate()
            except Exception as e:
                return ("evaluate-raised", hi, op, exc_obs(e), "an iterator"), trans, len(qual), len(items)
            trans += 1
            if len(it.pulled) != before or W.LOG.calls:
                return ("work-before-first-next", hi, op, (len(it.pulled) - before, len(W.LOG.calls)), (0, 0)), trans, len(qual), len(items)
            want = {"T1": 1, "T2": 2, "T3": 3, "F": len(qual) + 1}[op]
            got = []
            for k in range(want):
                try:
                    r = next(gen)
                except StopIteration:
                    break
                except Exception as e:
                    return ("next-raised", hi, op, exc_obs(e), "a result"), trans, len(qual), len(items)
                trans += 1
                got.append(r)
                if k >= len(qual) or r is not qual[k]:
                    return ("wrong-result", hi, op, (k, Q.norm(r)), (k, Q.norm(qual[k]) if k < len(qual) else "StopIteration")), trans, len(qual), len(items)
                exp_pulled = max(before, pos[k] + 1)
                if len(it.pulled) != exp_pulled:
                    return ("pulled-ahead" if len(it.pulled) > exp_pulled else "pulled-less", hi, op,
                            (f"result {k + 1}", len(it.pulled)), (f"result {k + 1}", exp_pulled)), trans, len(qual), len(items)
            if op == "F":
                if len(got) != len(qual):
                    return ("missing-results", hi, op, len(got), len(qual)), trans, len(qual), len(items)
            else:
                n_expected = min(want, len(qual))
                if len(got) != n_expected:
                    return ("missing-results", hi, op, len(got), n_expected), trans, len(qual), len(items)
                pulled_at_close = len(it.pulled)
                try:
                    gen.close()
                except Exception as e:
                    return ("close-raised", hi, op, exc_obs(e), "no exception"), trans, len(qual), len(items)
                if len(it.pulled) != pulled_at_close:
                    return ("pulled-on-close", hi, op, len(it.pulled), pulled_at_close), trans, len(qual), len(items)
        return None, trans, len(qual), len(items)

    bad, trans, nq, n = run_isolated(body)
    partial_then_more = any(op != "F" for op in hist[:-1])
    res = {"ok": bad is None, "nontrivial": partial_then_more and 0 < nq < n, "transitions": trans,
           "tags": [f"decl={style}", f"root={root_kind(tree) if tree else 'none'}", f"len={len(hist)}"] + [f"op={o}" for o in set(hist)],
           "outcome": f"{nq}"}
    if bad is not None:
        kind, hi, op, got, exp = bad
        res.update(sig=f"{kind}/{op}/after={'+'.join(hist[:hi]) or 'nothing'}/root={root_kind(tree) if tree else 'none'}",
                   obs=(f"evaluation {hi + 1} of {list(hist)}", got), exp=exp)
    return res


def describe(case, inst):
    if case[0] == "@interleaved":
        _, t1, t2, sched = case
        c2 = (", " + Q.up_cond(t2, inst)) if t2 else ""
        return (Q.up_world(GRID, inst) + "\nit = LoggingIter(D)   # one-shot, records every element handed out\n"
                f"with symbolic_mode(): x = let(Item, it); q1 = an(entity(x, {Q.up_cond(t1, inst)})); q2 = an(entity(x{c2}))\n"
                f"g1 = q1.evaluate(); g2 = q2.evaluate(); schedule {sched}: digit i = next(g<i>); then g1 and g2 are drained\n"
                "# expected: each iterator delivers its qualifying elements in order; after every result exactly the prefix "
                "needed so far has been pulled; nothing is pulled twice")
    style, tree, hist = case
    decl = "x = let(Item, it)" if style == "let" else "x = Item(From(it))   # it also yields 'junk<i>' strings after every third item"
    cond = (", " + Q.up_cond(tree, inst)) if tree else ""
    return (Q.up_world(GRID, inst) + f"\nit = LoggingIter(D)   # one-shot, records every element handed out\n"
            f"with symbolic_mode(): {decl}; q = an(entity(x{cond}))\n"
            f"history: {' ; '.join(hist)}   # T<k> = g = q.evaluate(); next(g) x k; g.close()   F = list(q.evaluate())\n"
            "# expected: no pull before the first next(); at the k-th result exactly the prefix ending at the k-th "
            "qualifying element has been pulled (or what earlier evaluations already pulled); results are the qualifying "
            "elements in order")
