"""C19 - values are not truth: falsy values are handled like any other value.

Enumerated on datasets whose attribute values, elements and constants include 0, '', (), None and False, in value
positions only: operands of comparisons and membership tests (one and two variables, trees to the tier's depth),
selected expressions, predicate arguments, field constraints of predicate-form terms, constructor arguments of inferred
instances, flattened elements.  Expressions in *condition* position (x.p, x.s as a condition) are included as controls:
they must be read as booleans.
Oracle: the ordinary Python oracle (qast.Ref).
"""
from __future__ import annotations

from .. import qast as Q
from ..common import (X, Y, A, L, eval_rows, diff_rows, row_labels, is_exc, root_kind, exc_obs)
from ..isolate import run_isolated
from ..space import trees_by_depth
from ..worlds import build_world

ID = "C19"
ENGINE = "eqlmc-E1"
RULE = ("cases = (shape family, program) on the falsy datasets; families: cond1/cond2 (condition trees, all leaves with a "
        "falsy-capable operand), sel (selected expressions), field (predicate-form field constraints), ctor (inferred "
        "instances), flat (flattened elements); non-trivial = expected rows neither empty nor everything"
        ' Wave 7: for_all over attribute / call / un-nested universals with falsy values; one expression object in condition position and selected / a constructor argument / a predicate argument / a concatenated collection, made true by another disjunct.')
ASSUMPTIONS = ["strings are treated as scalars by flatten (library convention), so no string-valued collections"]


def frow(p, q, i):
    return (("p", p), ("q", q), ("s", "a" if p == 1 else ""),
            ("t", ((), (0,), (1, 0), (2,))[(p + q) % 4]),
            ("flag", bool(q)),
            # inner values for flatten: collections holding falsy elements AND falsy scalars (a non-iterable value counts
            # as a single element)
            ("items", ((), (0, ""), (None,), 0, (False, 2), None, ((), 0), False, (0, 1), 2)[i % 10]))


FA = tuple(frow(p, q, i) for i, (p, q) in enumerate([(0, 0), (0, 1), (1, 0), (1, 1), (2, 0), (2, 1)]))
FB = tuple(frow(p, q, i + 3) for i, (p, q) in enumerate([(0, 1), (1, 0), (2, 0), (0, 0)]))
# a field that holds values of mixed types, among them values that are truthy/falsy but not equal to True/False
FM = tuple((("p", i % 2), ("t", (7,)), ("ref", v)) for i, v in enumerate((None, "", (), 2, "ok", True, False, 0, 1, (0,))))
WSPEC = (("FA", "Item", FA), ("FB", "Item", FB), ("FM", "Item", FM))
VX = ("x", "let", "Item", "FA")
VY = ("y", "let", "Item", "FB")


def leaves1():
    p, q, s, t = A(X, "p"), A(X, "q"), A(X, "s"), A(X, "t")
    out = []
    for op in ("eq", "ne", "lt", "le", "gt", "ge"):
        out += [("cmp", op, p, L(0)), ("cmp", op, L(0), p), ("cmp", op, p, q)]
    out += [("cmp", "eq", s, L("")), ("cmp", "ne", s, L("")), ("cmp", "eq", L(""), s),
            ("cmp", "eq", t, L(())), ("cmp", "ne", t, L(())),
            ("cmp", "eq", A(X, "flag"), L(False)), ("cmp", "ne", A(X, "flag"), L(True)),
            ("in", p, t), ("has", t, q), ("in", L(0), t), ("in", s, L(("", "b"))), ("has", L((0, None)), p),
            ("cmp", "eq", ("c", X, "get_p", ()), L(0)), ("cmp", "lt", ("c", X, "get_p", ()), ("c", X, "get_q", ())),
            ("cmp", "eq", ("i", t, 0), L(0)) if False else ("cmp", "ge", ("c", X, "get_q", ()), p),
            ("pf", "val_eq", (p, L(0))), ("pf", "val_eq", (s, L(""))),
            # a user FUNCTION (@predicate) called as a value: what it returns is compared like any other value
            ("cmp", "eq", ("pfv", "p_val", (X,)), L(0)), ("cmp", "lt", ("pfv", "p_val", (X,)), q), ("cmp", "ge", q, ("pfv", "p_val", (X,))),
            ("in", ("pfv", "p_val", (X,)), t), ("cmp", "eq", ("pfv", "s_val", (X,)), L("")), ("cmp", "ne", ("pfv", "s_val", (X,)), s),
            # controls: condition position is boolean
            ("t", p), ("t", s), ("t", A(X, "flag")), ("pf", "p_val", (X,)), ("pf", "s_val", (X,)),
            # wave 9 (C19-agent9): a CHAIN of mappings in condition position - only the last link is a truth value, the
            # value in between ('' / an empty tuple) is a value like any other
            ("t", ("c", s, "startswith", ("",))), ("t", ("c", s, "isalpha", ())), ("t", ("c", t, "count", (0,)))]
    return out


def leaves2():
    return [("cmp", "eq", A(X, "p"), A(Y, "p")), ("cmp", "lt", A(X, "q"), A(Y, "p")), ("cmp", "ne", A(X, "s"), A(Y, "s")),
            ("in", A(X, "p"), A(Y, "t")), ("cmp", "eq", A(X, "flag"), A(Y, "flag")), ("cmp", "eq", A(Y, "q"), L(0)),
            ("pf", "val_eq", (A(X, "p"), A(Y, "q")))]


REP1 = [("cmp", "eq", A(X, "p"), L(0)), ("cmp", "le", A(X, "q"), A(X, "p")), ("in", A(X, "p"), A(X, "t")),
        ("cmp", "ne", A(X, "s"), L(""))]
SELS = [(X, ("pfv", "p_val", (X,))), (("pfv", "s_val", (X,)), X), (X, A(X, "p")), (A(X, "p"), A(X, "s"), X), (A(X, "t"),), (A(X, "flag"), X), (("c", X, "get_p", ()), X),
        (A(X, "p"),), (A(X, "s"),)]


def bounds(tier):
    return {"cond1_depth": 1 if tier == "quick" else 2, "cond2_depth": 1 if tier == "quick" else 2,
            "falsy_values": [0, "", (), None, False]}


def cases(tier, inst):
    thorough = tier == "thorough"
    for t in trees_by_depth(leaves1(), 1):
        yield ("cond1", t)
    for t in trees_by_depth(leaves2(), 1):
        yield ("cond2", t)
    for t in trees_by_depth(REP1, 2):
        if Q.depth(t) == 2 and (thorough or t[0] == "not" or hash(t) % 4 == 0):
            yield ("cond1", t)
    if thorough:
        for t in trees_by_depth(leaves2()[:4], 2):
            if Q.depth(t) == 2:
                yield ("cond2", t)
    # ONE expression object (val = x.p) in condition position in one place and as a value (operand, selected) elsewhere
    # in the same query, over falsy data: whichever role is evaluated first, the other one is read as what it is
    xp_, xs_, xq_ = A(X, "p"), A(X, "s"), A(X, "q")
    for val in (xp_, xs_, A(X, "flag")):
        zero = L(0) if val == xp_ else (L("") if val == xs_ else L(False))
        for t in (("or", ("and", ("cmp", "ge", xq_, L(0)), ("t", val)), ("cmp", "eq", val, zero)),
                  ("or", ("cmp", "eq", val, zero), ("and", ("cmp", "eq", xq_, L(1)), ("t", val))),
                  ("and", ("or", ("t", val), ("cmp", "eq", xq_, L(0))), ("cmp", "ne", val, L(2))),
                  ("or", ("and", ("t", val), ("cmp", "eq", xq_, L(1))), ("cmp", "eq", val, zero))):
            yield ("roles", t, (X,))
            yield ("roles", t, (X, val))
        # the expression is false in its condition position, ANOTHER side of the disjunction makes the row, and it is selected
        for t in (("or", ("t", val), ("cmp", "eq", xq_, L(0))), ("or", ("cmp", "eq", xq_, L(0)), ("t", val)),
                  ("or", ("and", ("t", val), ("cmp", "eq", xq_, L(1))), ("cmp", "eq", xq_, L(0))),
                  ("not", ("and", ("t", val), ("cmp", "eq", xq_, L(1))))):
            if t[0] == "not":
                continue     # (a negation inverts the shared expression in place: out of the vocabulary)
            yield ("roles", t, (X, val))
            yield ("roles", t, (val, X))
            yield ("rolesent", t, val)
            # ... and is an argument of the inferred instance
            yield ("rolesctor", t, val)
        # ... is the argument of a user predicate on the other side, the collection that is concatenated on the other side
        yield ("rolespred", val, zero)
        yield ("rolescat", val, zero)

    for sel in SELS:
        yield ("sel", sel, None)
        for c in REP1 + [("cmp", "ge", A(X, "p"), L(0))]:
            yield ("sel", sel, c)
    # a value expression selected through entity(...): the results are the values themselves
    for term in (("pfv", "p_val", (X,)), ("pfv", "s_val", (X,)), A(X, "p"), A(X, "s"), A(X, "t"), A(X, "flag"), ("c", X, "get_p", ()), ("fl", A(X, "items")),
                 ("i", A(X, "t"), 0)):
        for c in (None, ("cmp", "ge", A(X, "q"), L(0)), ("cmp", "eq", A(X, "q"), L(0))):
            if term[0] == "i" and c is None:
                continue
            if term[0] == "i":
                c = ("and", ("cmp", "ne", A(X, "t"), L(())), c)     # x.t[0] only where t is not empty
            yield ("esel", term, c)
    # field constraints of predicate-form terms
    for kw in ((("p", L(0)),), (("s", L("")),), (("p", L(0)), ("q", L(0))), (("flag", L(False)),), (("t", L(())),),
               (("p", L(1)), ("s", L("a"))), (("q", L(0)), ("s", L("")))):
        for how in ("kw", "entity"):
            yield ("field", kw, how)
    # boolean (and other falsy/truthy) constants as field constraints over a field of mixed-type values: a constraint is
    # an equality, never a truth test
    for c in (("lb", "True"), ("lb", "False"), L(None), L(0), L(1), L(""), L(())):
        for kw in ((("ref", c),), (("p", L(0)), ("ref", c)), (("ref", c), ("p", L(1)))):
            for how in ("kw", "entity", "pos_nodomain"):
                yield ("fieldm", kw, how)
    # constructor arguments of inferred instances
    for args in (((("a", A(X, "p")), ("b", X))), (("a", A(X, "s")), ("b", A(X, "p")), ("c", X)),
                 (("a", X), ("b", L(0))), (("a", A(X, "flag")), ("b", X), ("c", L(""))),
                 (("a", A(X, "t")), ("b", X), ("c", L(None)))):
        for c in (None,) + tuple(REP1):
            yield ("ctor", args, c)
    yield from fa_cases()
    # flattened elements
    for sel in ((X, ("fl", A(X, "items"))), (("fl", A(X, "items")),), (("fl", A(X, "items")), X)):
        e = ("fl", A(X, "items"))
        for c in (None, ("cmp", "eq", e, L(0)), ("cmp", "ne", e, L(0)), ("cmp", "eq", A(X, "p"), L(0)),
                  ("and", ("cmp", "eq", A(X, "q"), L(0)), ("cmp", "ne", e, L(1))), ("in", e, L((0, None, ""))),
                  ("cmp", "eq", e, A(X, "p"))):
            yield ("flat", sel, c)


def fa_cases():
    """the universal of a for_all is a VALUE: every value of u.p / u.s / u.flag / of the elements of x.items counts, the
    falsy ones included"""
    xp, xq, xs, xt = A(X, "p"), A(X, "q"), A(X, "s"), A(X, "t")
    for u, conds in ((A(Y, "p"), (("cmp", "ge", xp, A(Y, "p")), ("cmp", "ne", xq, A(Y, "p")), ("in", A(Y, "p"), xt),
                                  ("cmp", "gt", A(Y, "p"), xq))),
                     (A(Y, "q"), (("cmp", "ge", xp, A(Y, "q")), ("cmp", "eq", xq, A(Y, "q")), ("cmp", "ne", A(Y, "q"), xp))),
                     (A(Y, "s"), (("cmp", "eq", xs, A(Y, "s")), ("cmp", "ne", xs, A(Y, "s")))),
                     (A(Y, "flag"), (("cmp", "eq", A(X, "flag"), A(Y, "flag")), ("cmp", "ne", A(X, "flag"), A(Y, "flag")))),
                     (("c", Y, "get_p", ()), (("cmp", "ge", xp, ("c", Y, "get_p", ())),))):
        for c in conds:
            for place in ("alone", "before", "after"):
                yield ("fa", u, c, place)
                yield ("fa", u, ("not", c), place)
    e = ("fl", A(X, "items"))
    for c in (("cmp", "ne", e, L(0)), ("cmp", "eq", e, A(X, "p")), ("in", e, L((0, None, ""))), ("cmp", "ne", e, L(None)),
              ("has", L((2, 1, False)), e)):
        for place in ("before", "after"):
            yield ("fa", e, c, place)
            yield ("fa", e, ("not", c), place)


def query_of(case):
    fam = case[0]
    if fam == "fa":
        _, u, c, place = case
        fa = ("fa", u, c)
        # (for the un-nested universal: parents without elements are left out, the statement speaks of non-empty domains)
        other = ("cmp", "ne", A(X, "items"), L(())) if u[0] == "fl" else ("cmp", "ge", A(X, "q"), L(0))
        conds = {"alone": (fa,), "before": (("andf", other, fa),), "after": (("andf", fa, other),)}[place]
        return ("Q", "an", "setof", (X,), conds, (VX,)), "query"
    if fam == "cond1":
        return ("Q", "an", "setof", (X,), (case[1],), (VX,)), "query"
    if fam == "cond2":
        return ("Q", "an", "setof", (X, Y), (case[1],), (VX, VY)), "query"
    if fam == "roles":
        return ("Q", "an", "setof", tuple(case[2]), (case[1],), (VX,)), "query"
    if fam == "rolesctor":
        return ("Q", "infer", "entity", ("new", "Made", (), (("a", X), ("b", case[2]))), (case[1],), (VX,)), "rule"
    if fam == "rolespred":
        _, val, zero = case
        return ("Q", "an", "setof", (X,), (("or", ("and", ("t", val), ("cmp", "eq", A(X, "q"), L(9))), ("pf", "val_eq", (val, zero))),),
                (VX,)), "query"
    if fam == "rolescat":
        _, val, zero = case
        return ("Q", "an", "setof", (Y,), (("or", ("and", ("t", val), ("cmp", "eq", A(X, "q"), L(9))),
                                             ("in", A(Y, "p"), ("cc", val))),), (VX, VY)), "query"
    if fam == "rolesent":           # the shared expression alone is selected, through entity(...)
        return ("Q", "an", "entity", case[2], (case[1],), (VX,)), "query"
    if fam in ("sel", "flat"):
        return ("Q", "an", "setof", tuple(case[1]), (case[2],) if case[2] else (), (VX,)), "query"
    if fam == "esel":
        return ("Q", "an", "entity", case[1], (case[2],) if case[2] else (), (VX,)), "query"
    if fam == "field":
        term = ("pform", "Item", "FA", (), case[1])
        if case[2] == "kw":
            return ("Q", "an", "entity", term, (), ()), "query"
        return ("Q", "an", "entity", ("bound", "x", ("pform", "Item", "FA", (), ())),
                tuple(("cmp", "eq", A(X, f), v) for f, v in case[1]), ()), "query"
    if fam == "fieldm":
        if case[2] == "kw":
            return ("Q", "an", "entity", ("pform", "Item", "FM", (), case[1]), (), ()), "query"
        if case[2] == "pos_nodomain":
            # no domain: Item(ref=c) ranges over the registry (every Item of the world), restricted to FM by a condition
            return ("Q", "an", "entity", ("bound", "x", ("pform", "Item", None, (), case[1])),
                    (("in", A(X, "t"), L(((7,),))),), ()), "query"
        return ("Q", "an", "entity", ("bound", "x", ("pform", "Item", "FM", (), ())),
                tuple(("cmp", "eq", A(X, f), v) for f, v in case[1]), ()), "query"
    if fam == "ctor":
        return ("Q", "infer", "entity", ("new", "Made", (), case[1]), (case[2],) if case[2] else (), (VX,)), "rule"
    raise ValueError(case)


def run_case(case, inst):
    q, mode = query_of(case)
    fam = case[0]

    def body():
        world = build_world(WSPEC, inst)
        ref = Q.Ref(world, inst)
        if fam in ("field", "ctor", "fieldm"):
            try:
                obj, b = Q.build(q, world, inst, mode=mode)
                got = [(r,) for r in obj.evaluate()]
            except Exception as e:
                got = exc_obs(e)
            if fam == "fieldm":
                exp = [(o,) for o in world["FM"] if all(getattr(o, f) == ref.value(v, {}) for f, v in case[1])]
            elif fam == "field":
                exp = [(o,) for o in world["FA"]
                       if all(getattr(o, f) == inst.v(v[1]) for f, v in case[1])]
            else:
                exp = [(ref.value(q[3], env),) for env in ref.solutions(q)]
            total = len(world["FA"])
        elif fam == "esel":
            try:
                obj, b = Q.build(q, world, inst, mode=mode)
                got = [(r,) for r in obj.evaluate()]
            except Exception as e:
                got = exc_obs(e)
            exp = [(ref.value(q[3], env),) for env in ref.solutions(q)]
            total = None
        elif fam == "fa":
            universals = () if case[1][0] == "fl" else (VY,)
            ref = Q.Ref(world, inst, universals=universals)
            got = eval_rows(q, world, inst, predeclare=universals)
            exp = [tuple(ref.value(s, env) for s in q[3]) for env in ref.solutions(q)]
            total = len(world["FA"])
        elif fam in ("roles", "rolesent", "rolesctor", "rolespred", "rolescat"):
            try:
                obj, b = Q.build(q, world, inst, share_terms="all", mode=mode)
                got = [tuple(r[s] for s in b.sel[q]) if fam in ("roles", "rolespred", "rolescat") else (r,) for r in obj.evaluate()]
            except Exception as e:
                got = exc_obs(e)
            if fam == "rolescat":
                # the concatenated value: the values of the expression over all x, the falsy ones included
                combined = [ref.value(case[1], {"x": o}) for o in world["FA"]]
                exp = [(o,) for o in world["FB"] if o.p in combined]
                return got, exp, len(world["FB"])
            exp = [tuple(ref.value(s, env) for s in (q[3] if fam in ("roles", "rolespred") else (q[3],))) for env in ref.solutions(q)]
            total = len(world["FA"])
        else:
            got = eval_rows(q, world, inst)
            sols = ref.solutions(q)
            exp = [tuple(ref.value(s, env) for s in q[3]) for env in sols]
            total = None
        return got, exp, total

    got, exp, total = run_isolated(body)
    d = diff_rows(got, exp, count=fam in ("cond1", "cond2", "field", "fieldm", "ctor", "flat", "esel", "roles", "rolesent", "rolesctor", "rolespred", "fa"))
    res = {"ok": d is None, "nontrivial": len(exp) > 0 and (total is None or len(exp) < total) if fam != "cond1"
           else 0 < len(exp) < len(FA), "transitions": 1 + (0 if is_exc(got) else len(got)),
           "tags": [f"family={fam}"], "outcome": f"{fam}:{len(exp)}"}
    if d is not None:
        res.update(sig=f"{fam}:{d}", obs=row_labels(got), exp=row_labels(exp))
    return res


def describe(case, inst):
    q, mode = query_of(case)
    return (Q.up_world(WSPEC, inst) + ("\nwith symbolic_mode(): y = let(Item, FB)   # the universal variable"
                                       if case[0] == "fa" and case[1][0] != "fl" else "")
            + "\n" + Q.up_query(q, inst, mode=mode)
            + "\nrows = list(q.evaluate())   # expected: ordinary Python semantics, falsy values are values")
