"""C13 - predicate-form terms equal the explicit form and filter by type.

Enumerated: class signatures (dataclass with a default, decorated subclass, undecorated subclass with an extra field,
hand-written __init__, a class holding another object) x every subset of fields given x keyword / positional-after-From
x constants, variables, attribute expressions and nested predicate-form terms (nesting <= 2) as values x mixed-type
domains (instances of several classes and non-instances); the variable declared by T(From(d)), let(T, d), and with ONE
From object shared by two declarations (same type and base/subclass).
Oracle: the explicit query an(entity(x := let(T, d), x.f == v, ...)) evaluated by the library AND the Python filter with
isinstance; both must agree with the predicate form.
"""
from __future__ import annotations

import itertools

from .. import qast as Q
from .. import worlds as W
from ..common import X, Y, A, L, V, exc_obs, is_exc, diff_lists, labels
from ..isolate import run_isolated
from ..worlds import build_world

ID = "C13"
ENGINE = "eqlmc-E1"
RULE = ("cases = (family, class, fields given, keyword/positional, value kinds, declaration style); all combinations "
        "listed in cases(); non-trivial = some but not all members of the domain are expected"
        ' Wave 7: a constrained predicate-form variable next to disjunctions / negated conjunctions one side of which does not mention it, the variable or an attribute of it selected, against the explicit form.')
ASSUMPTIONS = ["objects compared by identity; order compared for single-variable results"]

DM = (
    ("cls", "Base", ("k", 1), ("v", 7)), ("cls", "Sub", ("k", 1), ("v", 2)), ("cls", "USub", ("k", 2), ("v", 7), ("w", 9)),
    ("cls", "Hand", ("k", 1), ("v", 7)), ("cls", "Base", ("k", 2), ("v", 2)), ("raw", "junk"), ("raw", 3), ("raw", None),
    ("cls", "Item", ("p", 1)), ("cls", "Sub", ("k", 2), ("v", 7)), ("cls", "Hand", ("k", 2), ("v", 2)),
    ("cls", "USub", ("k", 1), ("v", 2), ("w", 5)),
    ("cls", "Part", ("k", 1), ("v", 7)), ("cls", "Part", ("k", 2), ("v", 7)), ("cls", "Part", ("k", 7), ("v", 1)),
    ("cls", "Rev", ("k", 1), ("v", 7)), ("cls", "Rev", ("k", 7), ("v", 1)), ("cls", "Rev", ("k", 2), ("v", 2)),
)
DH = (
    ("cls", "Holder", ("inner", ("@", "DM", 0)), ("n", 1)), ("cls", "Holder", ("inner", ("@", "DM", 1)), ("n", 2)),
    ("cls", "Holder", ("inner", ("@", "DM", 4)), ("n", 1)), ("cls", "Holder", ("inner", ("@", "DM", 3)), ("n", 1)),
    ("cls", "Holder", ("inner", ("@", "DM", 8)), ("n", 2)), ("raw", "junk"), ("cls", "Holder", ("inner", ("@", "DM", 9)), ("n", 1)),
)
DY = ((("p", 1), ("q", 7)), (("p", 2), ("q", 2)), (("p", 3), ("q", 7)))
WSPEC = (("DM", "Base", DM), ("DH", "Holder", DH), ("DY", "Item", DY))
MEMBER_KINDS = (("cls", "Base", ("k", 1)), ("cls", "Base", ("k", 2)), ("cls", "Sub", ("k", 1)), ("cls", "USub", ("k", 1)),
                ("cls", "Hand", ("k", 1)), ("raw", "junk"), ("raw", None), ("cls", "Item", ("p", 1)),
                ("cls", "FalsyBase", ("k", 1)))
FIELDS = {"Base": ("k", "v"), "Sub": ("k", "v"), "USub": ("k", "v", "w"), "Hand": ("k", "v"), "Part": ("k", "v"),
          "Rev": ("k", "v")}
# the order in which the constructor takes positional values (Rev's __init__ is (v, k); Part's is (k, v) although an
# inherited keyword-only field is declared first)
POSITIONAL = {"Base": ("k", "v"), "Sub": ("k", "v"), "USub": ("k", "v"), "Hand": ("k", "v"), "Part": ("k", "v"),
              "Rev": ("v", "k")}
# None among the constants of v since wave 9 (C13-agent9: "None means not supplied" dropped the constraint)
VALS = {"k": (1, 2, 7), "v": (7, 2, 1, None), "w": (9, 5)}


def bounds(tier):
    return {"classes": list(FIELDS) + ["Holder"], "field_subsets": "all", "positional_prefixes": "all",
            "value_kinds": ["constant", "variable", "attribute of a variable", "nested term"], "nesting": 2,
            "declarations": ["T(From(d))", "let(T, d)", "shared From"]}


def cases(tier, inst):
    # (a) type filter, however the variable was declared
    for cls in ("Base", "Sub", "USub", "Hand", "Item", "Part", "Rev"):
        for style in ("from", "let", "sharedfrom", "letn"):          # letn: let(T, d, name=...)
            for cond in (False, True):
                yield ("type", cls, style, cond)
    # (b) field constraints by keyword: every subset of fields x value combinations
    for cls, fs in FIELDS.items():
        for r in range(1, len(fs) + 1):
            for sub in itertools.combinations(fs, r):
                for vals in itertools.product(*[VALS[f] for f in sub]):
                    yield ("kw", cls, tuple(zip(sub, vals)))
        # positional after the domain: every prefix of the signature (k, v are the first two parameters everywhere;
        # USub's third parameter is the inherited `tag`, not `w`)
        ps = POSITIONAL[cls]
        for r in range(1, 3):
            for vals in itertools.product(*[VALS[f] for f in ps[:r]]):
                yield ("pos", cls, tuple(zip(ps[:r], vals)))
        # mixed: first positional, rest keyword
        for vals in itertools.product(VALS[ps[0]], VALS[ps[1]]):
            yield ("mixed", cls, ((ps[0], vals[0]), (ps[1], vals[1])))
    # (c) variables / attribute expressions as values
    for cls in ("Base", "Sub", "Hand", "Part", "Rev"):
        for how in ("kw", "pos"):
            yield ("varval", cls, how, "k=y.p")
            yield ("varval", cls, how, "k=y.p,v=y.q")
    for how in ("kw", "pos"):
        yield ("holdervar", how, "Base")
        yield ("holdervar", how, "Sub")
        yield ("holdervar", how, "Hand")
    # (d) nested predicate-form terms (nesting <= 2)
    for inner_cls in ("Base", "Sub", "Hand"):
        for inner_kw in ((), (("k", 1),), (("k", 2),), (("k", 1), ("v", 7))):
            for how in ("kw", "pos"):
                for n in (None, 1):
                    yield ("nested", inner_cls, inner_kw, how, n)
    # (f) every small mixed-type domain: type filter and one field constraint, however the variable is declared
    for n in range(0, (3 if tier == "thorough" else 2) + 1):
        for dom in itertools.product(range(len(MEMBER_KINDS)), repeat=n):
            for cls in ("Base", "Sub", "USub", "Hand"):
                for style in ("from", "let", "letn"):
                    yield ("tinytype", dom, cls, style, False)
                yield ("tinytype", dom, cls, "from", True)
    # (g) the domain is ONE object, not a collection ("a value or a set of values"): same type filter
    for member in range(len(MEMBER_KINDS)):
        if MEMBER_KINDS[member][0] == "raw":
            continue
        for cls in ("Base", "Sub", "USub", "Hand", "Item"):
            for style in ("from", "let"):
                yield ("single", member, cls, style)
    # (h) hierarchies made of classes that are NEW in every case (so what the library remembers per class starts
    #     empty): positional values reach fields the base class does not have or has elsewhere, and the base class is
    #     used in a query before / after / never
    for shape in HIER:
        for deco_t in (True, False):
            for before in ("none", "P:from", "P:let", "P:kw", "T:kw+P:from"):
                nf = len(HIER[shape][2])
                for r in range(0, nf + 1):
                    for vals in itertools.product((1, 2), repeat=r):
                        yield ("freshhier", shape, deco_t, before, "pos", vals)
                if before in ("none", "P:from"):
                    for r in range(1, nf + 1):
                        for fs in itertools.combinations(range(nf), r):
                            yield ("freshhier", shape, deco_t, before, "kw", fs)
    # (k) a constrained predicate-form variable next to FURTHER conditions that are false or do not mention it on one
    #     side (a disjunction with a constant, with a condition on another variable, a negated conjunction), the variable
    #     itself or only an attribute of it selected: the field constraint restricts the variable in every row
    for ck in PFCONDS:
        for sel in ("x", "x.p", "x.p+y"):
            for kw in ((("q", 1),), (("q", 2),), (("q", 1), ("flag", True))):
                yield ("pfcond", ck, sel, kw)
    # (i) the supplied domain is itself a symbolic expression: another variable, or another query (its solutions)
    for outer in ("Base", "Sub", "USub", "Hand"):
        for inner in ("Base", "Sub"):
            for how in ("from_query", "from_var", "from_letvar", "let_query", "from_query_cond"):
                for constrained in (False, True):
                    yield ("exprdom", outer, inner, how, constrained)
    # (j) the user's collection CHANGES IN PLACE between two declarations over it: a variable declared later ranges over
    #     the collection as it is then (a variable is evaluated first, then members are appended / removed / replaced)
    for cls in ("Base", "Sub", "Hand"):
        for change in ("append", "remove", "replace", "clear_extend"):
            for first in ("from", "let", "kw"):
                for second in ("from", "let", "kw", "nested"):
                    yield ("mutated", cls, change, first, second)
    # (e) one From object shared by two declarations
    for c1, c2 in (("Base", "Base"), ("Base", "Sub"), ("Sub", "Base"), ("Hand", "Base"), ("Base", "USub")):
        for join in ("none", "k"):
            yield ("shared", c1, c2, join)


# shape -> (source text of the classes, positional order of P, positional order of T)
HIER = {
    "adds_field": ("class P: a, b;  class T(P): + c", ("a", "b"), ("a", "b", "c")),
    "two_bases": ("class N: a;  class Z: b;  P = N;  class T(N, Z)   # dataclass field order: b, a", ("a",), ("b", "a")),
    "hand_init": ("class P: a, b;  class T(P): def __init__(self, c, a, b=1)", ("a", "b"), ("c", "a", "b")),
    "two_levels": ("class G: a;  class P(G): + b;  class T(P): + c   # G is never used", ("a", "b"), ("a", "b", "c")),
}


def make_hier(shape, deco_t):
    from dataclasses import dataclass
    from entity_query_language import symbol
    if shape == "adds_field":
        @symbol
        @dataclass(eq=False)
        class P:
            a: int = 1
            b: int = 1

        @dataclass(eq=False)
        class T(P):
            c: int = 1
    elif shape == "two_bases":
        @symbol
        @dataclass(eq=False)
        class P:
            a: int = 1

        @symbol
        @dataclass(eq=False)
        class Z:
            b: int = 1

        @dataclass(eq=False)
        class T(P, Z):
            pass
    elif shape == "hand_init":
        @symbol
        @dataclass(eq=False)
        class P:
            a: int = 1
            b: int = 1

        class T(P):
            def __init__(self, c=1, a=1, b=1):
                super().__init__(a, b)
                self.c = c
    else:
        @symbol
        @dataclass(eq=False)
        class G:
            a: int = 1

        @dataclass(eq=False)
        class P(G):
            b: int = 1

        @dataclass(eq=False)
        class T(P):
            c: int = 1
    if deco_t:
        T = symbol(T)
    return P, T


def run_freshhier(case, inst):
    _, shape, deco_t, before, how, spec = case
    from entity_query_language import an, entity, let, symbolic_mode, From
    P, T = make_hier(shape, deco_t)
    pf, tf = HIER[shape][1], HIER[shape][2]
    vs = (inst.v(1), inst.v(2))
    dom = []
    for vals in itertools.product(vs, repeat=len(pf)):
        dom.append(P(**dict(zip(pf, vals))))
    for vals in itertools.product(vs, repeat=len(tf)):
        dom.append(T(**dict(zip(tf, vals))))
    dom.insert(3, "junk")
    dom = inst.rotate(dom)
    # what happened to the classes before the term under test is written
    for step in before.split("+"):
        if step == "none":
            continue
        with symbolic_mode():
            if step == "P:from":
                q0 = an(entity(P(From(dom))))
            elif step == "P:let":
                q0 = an(entity(let(P, dom)))
            elif step == "P:kw":
                q0 = an(entity(P(From(dom), a=vs[0])))
            else:
                q0 = an(entity(T(From(dom), a=vs[0])))
        r0 = list(q0.evaluate())
        cls0, want0 = (T, True) if step.startswith("T") else (P, step == "P:kw")
        e0 = [o for o in dom if isinstance(o, cls0) and (not want0 or o.a == vs[0])]
        if [id(o) for o in r0] != [id(o) for o in e0]:
            return ("before", len(r0)), ("before", len(e0)), len(dom)
    if how == "pos":
        given = dict(zip(tf, [inst.v(v) for v in spec]))
        args, kw = list(given.values()), {}
    else:
        given = {tf[i]: vs[i % 2] for i in spec}
        args, kw = [], given
    try:
        with symbolic_mode():
            q = an(entity(T(From(dom), *args, **kw)))
        got = list(q.evaluate())
    except Exception as e:
        got = exc_obs(e)
    exp = [o for o in dom if isinstance(o, T) and all(getattr(o, f) == v for f, v in given.items())]
    lab_ = lambda o: f"{type(o).__name__}(" + ", ".join(f"{f}={getattr(o, f)}" for f in tf if hasattr(o, f)) + ")"   # noqa: E731
    return (got if is_exc(got) else [(lab_(o), dom.index(o)) for o in got]), [(lab_(o), dom.index(o)) for o in exp], len(dom)


def run_mutated(case, inst):
    _, clsname, change, first, second = case
    from entity_query_language import an, entity, let, symbolic_mode, From
    world = build_world(WSPEC, inst)
    d = list(world["DM"])
    T = W.CLASSES[clsname]

    def declare(how):
        with symbolic_mode():
            if how == "from":
                return an(entity(T(From(d))))
            if how == "let":
                return an(entity(let(T, d)))
            if how == "kw":
                return an(entity(T(From(d), k=inst.v(1))))
            h = W.Holder(From(world["DH"]), inner=T(From(d)))
            return an(entity(h))

    def expect(how):
        members = [o for o in d if isinstance(o, T)]
        if how == "kw":
            return [o for o in members if o.k == inst.v(1)]
        if how == "nested":
            return [h for h in world["DH"] if isinstance(h, W.Holder) and any(h.inner is o for o in members)]
        return members

    lab_ = lambda r: r if is_exc(r) else [repr(Q.norm(o)) for o in r]      # noqa: E731
    try:
        q1 = declare(first)
        got1, exp1 = list(q1.evaluate()), expect(first)
        extra = T(k=inst.v(1), tag="new") if clsname != "Hand" else T(inst.v(1), tag="new")
        members = [o for o in d if isinstance(o, T)]
        if change == "append":
            d.append(extra)
        elif change == "remove":
            d.remove(members[0])
        elif change == "replace":
            d[d.index(members[0])] = extra
        else:
            kept = d[2:]
            d.clear()
            d.extend(kept + [extra])
        q2 = declare(second)
        got2, exp2 = list(q2.evaluate()), expect(second)
    except Exception as e:
        return exc_obs(e), None, None, None
    return lab_(got1), lab_(exp1), sorted(lab_(got2)) if second == "nested" else lab_(got2), \
        sorted(lab_(exp2)) if second == "nested" else lab_(exp2)


def run_exprdom(case, inst):
    _, outer, inner, how, constrained = case
    from entity_query_language import an, entity, let, symbolic_mode, From
    world = build_world(WSPEC, inst)
    dm = world["DM"]
    T, P = W.CLASSES[outer], W.CLASSES[inner]
    kw = {"k": inst.v(1)} if constrained else {}
    try:
        with symbolic_mode():
            if how == "from_query":
                q = an(entity(T(From(an(entity(P(From(dm))))), **kw)))
            elif how == "from_query_cond":
                pv = P(From(dm))
                q = an(entity(T(From(an(entity(pv, pv.v >= inst.v(2)))), **kw)))
            elif how == "from_var":
                q = an(entity(T(From(P(From(dm))), **kw)))
            elif how == "from_letvar":
                q = an(entity(T(From(let(P, dm)), **kw)))
            else:
                tv = let(T, an(entity(let(P, dm))))
                q = an(entity(tv, tv.k == inst.v(1))) if constrained else an(entity(tv))
        got = list(q.evaluate())
        again = list(q.evaluate())
    except Exception as e:
        got = again = exc_obs(e)
    exp = [o for o in dm if isinstance(o, P) and isinstance(o, T) and (not constrained or o.k == inst.v(1))
           and (how != "from_query_cond" or o.v >= inst.v(2))]
    lab_ = lambda r: r if is_exc(r) else [repr(Q.norm(o)) for o in r]      # noqa: E731
    return lab_(got), lab_(again), lab_(exp), len([o for o in dm if isinstance(o, P)])


def lit_pairs(pairs):
    return tuple((f, L(v)) for f, v in pairs)


# instances that exist (are registered) but are NOT members of the supplied domain: they must never show up
ELSEWHERE = ("ELSE", "Base", tuple(k for k in MEMBER_KINDS if k[0] == "cls"))


def wspec_of(case):
    if case[0] == "single":
        return (ELSEWHERE, ("DM", "Base", (MEMBER_KINDS[case[1]],)))
    if case[0] == "tinytype":
        return (ELSEWHERE, ("DM", "Base", tuple(MEMBER_KINDS[i] for i in case[1])))
    return WSPEC


def build_case(case, world, inst):
    """-> (query AST for the predicate form, query AST for the explicit form, expected objects/rows, kind)"""
    fam = case[0]
    dm = world["DM"]
    if fam == "single":
        _, member, cls, style = case
        q = ("Q", "an", "entity", X, (), (("x", style + "1", cls, "DM"),))
        exp = [o for o in dm if isinstance(o, W.CLASSES[cls])]
        return q, None, exp, "list"
    if fam == "tinytype":
        _, dom, cls, style, constrained = case
        if constrained:
            q = ("Q", "an", "entity", ("pform", cls, "DM", (), (("k", L(1)),)), (), ())
            qe = ("Q", "an", "entity", X, (("cmp", "eq", A(X, "k"), L(1)),), (("x", "let", cls, "DM"),))
        else:
            q = ("Q", "an", "entity", X, (), (("x", style, cls, "DM"),))
            qe = None
        exp = [o for o in dm if isinstance(o, W.CLASSES[cls]) and (not constrained or o.k == inst.v(1))]
        return q, qe, exp, "list"
    if fam == "type":
        _, cls, style, cond = case
        conds = (("cmp", "ge", A(X, "p" if cls == "Item" else "k"), L(1)),) if cond else ()
        q = ("Q", "an", "entity", X, conds, (("x", style, cls, "DM"),))
        exp = [o for o in dm if isinstance(o, W.CLASSES[cls])
               and (not cond or getattr(o, "p" if cls == "Item" else "k") >= inst.v(1))]
        return q, None, exp, "list"
    if fam in ("kw", "pos", "mixed"):
        _, cls, pairs = case
        if fam == "kw":
            term = ("pform", cls, "DM", (), lit_pairs(pairs))
        elif fam == "pos":
            term = ("pform", cls, "DM", tuple(L(v) for _, v in pairs), ())
        else:
            term = ("pform", cls, "DM", (L(pairs[0][1]),), lit_pairs(pairs[1:]))
        q = ("Q", "an", "entity", term, (), ())
        qe = ("Q", "an", "entity", X, tuple(("cmp", "eq", A(X, f), L(v)) for f, v in pairs), (("x", "let", cls, "DM"),))
        exp = [o for o in dm if isinstance(o, W.CLASSES[cls]) and all(getattr(o, f) == inst.v(v) for f, v in pairs)]
        return q, qe, exp, "list"
    if fam == "varval":
        _, cls, how, spec = case
        vy = (("y", "let", "Item", "DY"),)
        fields = (("k", A(Y, "p")),) if spec == "k=y.p" else (("k", A(Y, "p")), ("v", A(Y, "q")))
        fd = dict(fields)
        prefix = POSITIONAL[cls][:len(fd)]
        if how == "pos" and set(prefix) == set(fd):
            # positional values go in the constructor's own parameter order
            term = ("pform", cls, "DM", tuple(fd[f] for f in prefix), ())
        else:   # (a lone k cannot be given positionally when k is not the first parameter: keyword then)
            term = ("pform", cls, "DM", (), fields)
        q = ("Q", "an", "setof", (("bound", "x", term), Y), (), vy)
        qe = ("Q", "an", "setof", (X, Y), tuple(("cmp", "eq", A(X, f), t) for f, t in fields),
              (("x", "let", cls, "DM"),) + vy)
        exp = [(o, y) for o in dm if isinstance(o, W.CLASSES[cls]) for y in world["DY"]
               if all(getattr(o, f) == (y.p if t == A(Y, "p") else y.q) for f, t in fields)]
        return q, qe, exp, "rows"
    if fam == "holdervar":
        _, how, bcls = case
        vb = (("b", "let", bcls, "DM"),)
        B = V("b")
        term = ("pform", "Holder", "DH", (), (("inner", B),)) if how == "kw" else ("pform", "Holder", "DH", (B,), ())
        q = ("Q", "an", "setof", (("bound", "x", term), B), (), vb)
        qe = ("Q", "an", "setof", (X, B), (("cmp", "eq", A(X, "inner"), B),), (("x", "let", "Holder", "DH"),) + vb)
        exp = [(h, b) for h in world["DH"] if isinstance(h, W.Holder) for b in dm
               if isinstance(b, W.CLASSES[bcls]) and h.inner is b]
        return q, qe, exp, "rows"
    if fam == "nested":
        _, icls, ikw, how, n = case
        inner = ("pform", icls, "DM", (), lit_pairs(ikw))
        kw = (("inner", inner),) + ((("n", L(n)),) if n is not None else ())
        term = ("pform", "Holder", "DH", (), kw) if how == "kw" else \
            ("pform", "Holder", "DH", (inner,) + ((L(n),) if n is not None else ()), ())
        q = ("Q", "an", "entity", term, (), ())
        B = V("b")
        qe = ("Q", "an", "entity", X,
              (("cmp", "eq", A(X, "inner"), B),) + tuple(("cmp", "eq", A(B, f), L(v)) for f, v in ikw)
              + ((("cmp", "eq", A(X, "n"), L(n)),) if n is not None else ()),
              (("x", "let", "Holder", "DH"), ("b", "let", icls, "DM")))
        exp = [h for h in world["DH"] if isinstance(h, W.Holder) and isinstance(h.inner, W.CLASSES[icls])
               and any(h.inner is o for o in dm)
               and all(getattr(h.inner, f) == inst.v(v) for f, v in ikw) and (n is None or h.n == inst.v(n))]
        return q, qe, exp, "set"
    if fam == "shared":
        _, c1, c2, join = case
        conds = (("cmp", "eq", A(X, "k"), A(Y, "k")),) if join == "k" else ()
        q = ("Q", "an", "setof", (X, Y), conds, (("x", "sharedfrom", c1, "DM"), ("y", "sharedfrom", c2, "DM")))
        qe = ("Q", "an", "setof", (X, Y), conds, (("x", "let", c1, "DM"), ("y", "let", c2, "DM")))
        exp = [(a, b) for a in dm if isinstance(a, W.CLASSES[c1]) for b in dm if isinstance(b, W.CLASSES[c2])
               and (join == "none" or a.k == b.k)]
        return q, qe, exp, "rows"
    raise ValueError(case)


def evaluate(q, world, inst, twice=False):
    """build and evaluate; with `twice` also the result of evaluating the same query object again"""
    def once(obj, b):
        if q[2] == "entity":
            return list(obj.evaluate())
        sel = b.sel[q]
        return [tuple(r[s] for s in sel) for r in obj.evaluate()]
    try:
        obj, b = Q.build(q, world, inst)
        first = once(obj, b)
    except Exception as e:
        return (exc_obs(e), None) if twice else exc_obs(e)
    if not twice:
        return first
    try:
        return first, once(obj, b)
    except Exception as e:
        return first, exc_obs(e)


def lab(kind, res):
    if is_exc(res):
        return res
    if kind == "rows":
        return sorted(repr(tuple(Q.norm(v) for v in r)) for r in res)
    if kind == "set":
        return sorted(set(repr(Q.norm(o)) for o in res))
    return [repr(Q.norm(o)) for o in res]


_xp, _yp = A(X, "p"), A(Y, "p")
PFCONDS = {
    "or_const": ("or", ("cmp", "gt", _xp, L(10)), ("const", "True")),
    "or_y": ("or", ("cmp", "gt", _xp, L(10)), ("cmp", "ge", _yp, L(2))),
    "or_y_first": ("or", ("cmp", "ge", _yp, L(2)), ("cmp", "gt", _xp, L(10))),
    "or_x_y": ("or", ("cmp", "eq", _xp, L(2)), ("cmp", "ge", _yp, L(3))),
    "not_and_const": ("not", ("and", ("cmp", "lt", _xp, L(10)), ("const", "False"))),
    "not_and_y": ("not", ("and", ("cmp", "lt", _xp, L(10)), ("cmp", "lt", _yp, L(2)))),
    "and_or": ("and", ("cmp", "ge", _xp, L(1)), ("or", ("cmp", "gt", _xp, L(10)), ("t", A(Y, "flag")))),
}
PF_ROWS = tuple((("p", p), ("q", q), ("flag", p >= 2)) for p, q in ((1, 1), (2, 2), (3, 1), (2, 1), (1, 2)))
PF_WORLD = (("D", "Item", PF_ROWS), ("E", "Item", ((("p", 1), ("flag", False)), (("p", 2), ("flag", True)), (("p", 3), ("flag", False)))))


def run_pfcond(case, inst):
    _, ck, selk, kw = case
    cond = PFCONDS[ck]
    pform = ("bound", "x", ("pform", "Item", "D", (), tuple((f, L(v)) for f, v in kw)))
    vy = ("y", "let", "Item", "E")
    uses_y = "y" in Q.cond_vars(cond) or selk == "x.p+y"
    sel = {"x": (pform,), "x.p": (A(pform, "p"),), "x.p+y": (A(pform, "p"), Y)}[selk]
    q = ("Q", "an", "setof", sel, (cond,), (vy,) if uses_y else ())
    explicit = ("Q", "an", "setof", {"x": (X,), "x.p": (_xp,), "x.p+y": (_xp, Y)}[selk],
                tuple(("cmp", "eq", A(X, f), L(v)) for f, v in kw) + (cond,),
                (("x", "let", "Item", "D"),) + ((vy,) if uses_y else ()))
    world = build_world(PF_WORLD, inst)
    ref = Q.Ref(world, inst)
    exp = sorted({repr(tuple(Q.norm(ref.value(s_, env)) for s_ in explicit[3])) for env in ref.solutions(explicit)})
    out = []
    for query in (q, explicit):
        try:
            obj, b = Q.build(query, world, inst, predeclare=(vy,) if uses_y else ())
            sel_built = b.sel[query]
            for _ in range(2):
                out.append(sorted({repr(tuple(Q.norm(r[s_]) for s_ in sel_built)) for r in obj.evaluate()}))
        except Exception as e:
            out.append(exc_obs(e))
            out.append(exc_obs(e))
    return out, exp, len(world["D"]) * (len(world["E"]) if selk == "x.p+y" else 1)


def run_case(case, inst):
    if case[0] == "pfcond":
        out, exp, n = run_isolated(lambda: run_pfcond(case, inst))
        names = ("predicate-form", "predicate-form:second-evaluation", "explicit", "explicit:second-evaluation")
        res = {"ok": all(o == exp for o in out), "nontrivial": 0 < len(exp) < n, "transitions": 4,
               "tags": ["family=pfcond", f"cond={case[1]}", f"sel={case[2]}"], "outcome": f"pfcond:{len(exp)}"}
        for name, o in zip(names, out):
            if o != exp:
                k = f"exc:{o[1]}" if is_exc(o) else ("missing" if set(exp) - set(o) else ("extra" if set(o) - set(exp) else "count"))
                res.update(sig=f"pfcond:{name}:{k}/{case[1]}/sel={case[2]}", obs=o, exp=exp)
                break
        return res
    if case[0] == "mutated":
        got1, exp1, got2, exp2 = run_isolated(lambda: run_mutated(case, inst))
        res = {"ok": not is_exc(got1) and got1 == exp1 and got2 == exp2, "nontrivial": bool(exp2), "transitions": 2,
               "tags": ["family=mutated", f"change={case[2]}"], "outcome": f"mutated:{len(exp2) if exp2 else 0}"}
        if not res["ok"]:
            if is_exc(got1):
                res.update(sig=f"mutated:exc:{got1[1]}", obs=got1, exp="no exception")
            elif got1 != exp1:
                res.update(sig="mutated:first-declaration", obs=got1, exp=exp1)
            else:
                k = "missing" if set(exp2) - set(got2) else ("extra" if set(got2) - set(exp2) else "order-or-count")
                res.update(sig=f"mutated:later-declaration:{k}/{case[2]}/{case[4]}", obs=got2, exp=exp2)
        return res
    if case[0] == "exprdom":
        got, again, exp, n = run_isolated(lambda: run_exprdom(case, inst))
        res = {"ok": got == exp and again == exp, "nontrivial": 0 < len(exp) < n, "transitions": 2,
               "tags": ["family=exprdom", f"how={case[3]}"], "outcome": f"exprdom:{len(exp)}"}
        if not res["ok"]:
            bad = got if got != exp else again
            k = f"exc:{bad[1]}" if is_exc(bad) else ("missing" if set(exp) - set(bad) else ("extra" if set(bad) - set(exp) else "order-or-count"))
            res.update(sig=f"exprdom:{'' if got != exp else 'second-evaluation:'}{k}/{case[3]}", obs=bad, exp=exp)
        return res
    if case[0] == "freshhier":
        got, exp, n = run_isolated(lambda: run_freshhier(case, inst))
        res = {"ok": got == exp, "nontrivial": 0 < len(exp) < n, "transitions": 2,
               "tags": ["family=freshhier", f"shape={case[1]}", f"before={case[3]}", f"how={case[4]}"],
               "outcome": f"freshhier:{len(exp)}"}
        if got != exp:
            k = f"exc:{got[1]}" if is_exc(got) else ("missing" if set(exp) - set(got) else ("extra" if set(got) - set(exp) else "order-or-count"))
            res.update(sig=f"freshhier:{k}/{case[1]}/before={case[3]}/{case[4]}", obs=got, exp=exp)
        return res

    def body():
        world = build_world(wspec_of(case), inst)
        q, qe, exp, kind = build_case(case, world, inst)
        got, again = evaluate(q, world, inst, twice=True)
        gote = None
        if qe is not None:
            world2 = build_world(wspec_of(case), inst)
            gote = lab(kind, evaluate(qe, world2, inst))
        n = len(world["DM"])
        return lab(kind, got), (lab(kind, again) if again is not None else None), gote, lab(kind, exp), kind, n

    got, again, gote, exp, kind, n = run_isolated(body)
    res = {"ok": True, "nontrivial": 0 < len(exp) and (kind != "list" or len(exp) < n), "transitions": 2,
           "tags": [f"family={case[0]}"], "outcome": f"{case[0]}:{len(exp)}"}
    if got != exp:
        k = f"exc:{got[1]}" if is_exc(got) else ("missing" if set(exp) - set(got) else ("extra" if set(got) - set(exp) else "order-or-count"))
        res.update(ok=False, sig=f"{case[0]}:{k}" + (f"/{case[1]}" if case[0] in ("type", "pos", "kw", "mixed") else ""),
                   obs=got, exp=exp)
    elif again is not None and again != exp:
        k = f"exc:{again[1]}" if is_exc(again) else ("missing" if set(exp) - set(again) else ("extra" if set(again) - set(exp) else "order-or-count"))
        res.update(ok=False, sig=f"{case[0]}:second-evaluation:{k}", obs=("evaluated again", again), exp=exp)
    elif gote is not None and gote != exp:
        res.update(ok=False, sig=f"{case[0]}:explicit-form-differs", obs=("explicit form", gote), exp=exp)
    return res


def describe(case, inst):
    if case[0] == "mutated":
        _, clsname, change, first, second = case
        forms = {"from": f"an(entity({clsname}(From(d))))", "let": f"an(entity(let({clsname}, d)))",
                 "kw": f"an(entity({clsname}(From(d), k={inst.v(1)})))",
                 "nested": f"an(entity(Holder(From(DH), inner={clsname}(From(d)))))"}
        ch = {"append": "d.append(new)", "remove": f"d.remove(<first {clsname} in d>)", "replace": f"d[<index of the first {clsname}>] = new",
              "clear_extend": "kept = d[2:]; d.clear(); d.extend(kept + [new])"}[change]
        return (Q.up_world(WSPEC, inst) + f"\nd = list(DM); q1 = {forms[first]}; list(q1.evaluate())\n"
                f"new = {clsname}(k={inst.v(1)}); {ch}\nq2 = {forms[second]}   # a NEW declaration over the same list object\n"
                "result = list(q2.evaluate())   # expected: the members of d as it is now")
    if case[0] == "exprdom":
        _, outer, inner, how, constrained = case
        kw = f", k={inst.v(1)}" if constrained else ""
        src = {"from_query": f"q = an(entity({outer}(From(an(entity({inner}(From(DM))))){kw})))",
               "from_query_cond": f"pv = {inner}(From(DM)); q = an(entity({outer}(From(an(entity(pv, pv.v >= {inst.v(2)}))){kw})))",
               "from_var": f"q = an(entity({outer}(From({inner}(From(DM))){kw})))",
               "from_letvar": f"q = an(entity({outer}(From(let({inner}, DM)){kw})))",
               "let_query": f"tv = let({outer}, an(entity(let({inner}, DM)))); q = an(entity(tv" + (f", tv.k == {inst.v(1)}" if constrained else "") + "))"}[how]
        return (Q.up_world(WSPEC, inst) + "\nwith symbolic_mode(): " + src + "\nresult = list(q.evaluate()); again = "
                f"list(q.evaluate())   # expected (both): the members of DM that are instances of {inner} AND of {outer}" + (" with the field value" if constrained else ""))
    if case[0] == "freshhier":
        _, shape, deco_t, before, how, spec = case
        tf = HIER[shape][2]
        term = ("T(From(d), " + ", ".join(repr(inst.v(v)) for v in spec) + ")") if how == "pos" else \
            ("T(From(d), " + ", ".join(f"{tf[i]}={inst.v(1 + i % 2)!r}" for i in spec) + ")")
        return (f"# classes defined anew for this case (all dataclasses(eq=False) with defaults 1, P decorated with @symbol, "
                f"T {'decorated' if deco_t else 'not decorated'}):\n#   {HIER[shape][0]}\n"
                f"d = every P and every T with field values in ({inst.v(1)}, {inst.v(2)}), plus 'junk'\n"
                f"# evaluated before, in this order: {before}   (P:from = an(entity(P(From(d)))), P:let = an(entity(let(P, d))), "
                f"P:kw = an(entity(P(From(d), a={inst.v(1)}))), T:kw = an(entity(T(From(d), a={inst.v(1)}))))\n"
                f"q = an(entity({term}))\nresult = list(q.evaluate())   # expected: isinstance(o, T) and the given fields equal")
    world = None
    try:
        w = build_world(wspec_of(case), inst)
        q, qe, exp, kind = build_case(case, w, inst)
        src = Q.up_query(q, inst) + ("\n# explicit form: " + Q.up_query(qe, inst) if qe else "")
    except Exception as e:     # describing must never fail a run
        src = f"<{e}>"
    return Q.up_world(wspec_of(case), inst) + "\n" + src + "\nresult = list(q.evaluate()); again = list(q.evaluate())   # expected (both): isinstance filter + field equalities"
