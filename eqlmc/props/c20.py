"""C20 - the result-cache index returns exactly the stored entries matching a lookup.

Engine E2, driven at the narrowest seam: IndexedCache itself, with HashedValue keys as the library uses it.
Operations: insert(binding, output) for every non-empty partial / full binding over a 2-value alphabet (overwrites
included), clear().  Every insert sequence up to the depth bound (3 keys: depth 3; 2 keys: depth 4; 1 key: depth 4), the
key list given sorted and unsorted.  After EVERY step: check(b) for every non-empty lookup b and retrieve(b) for every
lookup b (the empty one and lookups carrying an extra non-key id included, as callers pass whole source dicts).
Reference: a Python list of (binding, output).  coverage(b) = some stored binding is contained in b;
retrieve(b) = every stored entry agreeing with b on the keys they share, each once, with binding merged into b.
"""
from __future__ import annotations

import itertools

import eqlmc  # noqa: F401
from entity_query_language.cache_data import IndexedCache
from entity_query_language.hashed_data import HashedValue

from ..space import sequences

ID = "C20"
ENGINE = "eqlmc-E2"
TECHNIQUE = ("exhaustive enumeration of insert/clear histories on the real IndexedCache, every lookup compared with a "
             "list-of-pairs reference model after every step")
RULE = ("cases = (key list variant, operation sequence); all sequences of non-empty bindings up to the depth bound; every "
        "lookup after every step is a transition; non-trivial = at least two entries with different bindings stored")
ASSUMPTIONS = ["values are HashedValue objects with distinct ids, as in the library",
               "inserting under the empty binding is not part of the alphabet (the statement speaks of full or partial "
               "key bindings; the empty one is covered separately in the `empty` variant)"]
BATCH = 150
TASKS_PER_CHILD = 20

VALS = ("a", "b")
VALS3 = ("a", "b", "c")
HV = {"a": HashedValue("A", id_=101), "b": HashedValue("B", id_=102), "c": HashedValue("C", id_=103),
      "x": HashedValue("X", id_=777)}
EXTRA_KEY = 99      # an id that is not a key of the cache (callers pass whole source dicts)
KEYSETS = {
    "k3": (1, 2, 3), "k3u": (3, 1, 2),        # the same three keys, given unsorted
    "k2": (1, 2), "k2u": (2, 1), "k1": (1,),
    "k2v3": (1, 2),                           # two keys over a three-value alphabet
}


def bindings(keys, allow_empty, vals=VALS):
    ks = sorted(keys)
    out = []
    for combo in itertools.product((None,) + tuple(vals), repeat=len(ks)):
        b = tuple((k, v) for k, v in zip(ks, combo) if v is not None)
        if b or allow_empty:
            out.append(b)
    return out


def bounds(tier):
    return {"k3_depth": 2 if tier == "quick" else 4, "k2_depth": 3 if tier == "quick" else 5, "k1_depth": 4,
            "k2_three_values_depth": 2 if tier == "quick" else 3, "values": 2, "lookups": "every binding incl. empty and with an extra non-key id, after every step"}


def cases(tier, inst):
    thorough = tier == "thorough"
    plan = [("k3", 4 if thorough else 2), ("k3u", 3 if thorough else 2), ("k2", 5 if thorough else 3),
            ("k2u", 4 if thorough else 2), ("k1", 4), ("k2v3", 3 if thorough else 2)]
    for kv, depth in plan:
        alpha = bindings(KEYSETS[kv], False, VALS3 if kv == "k2v3" else VALS)
        for seq in sequences(alpha, depth, 1):
            yield (kv, seq)
        # clear() in the middle / at the end
        for seq in sequences(alpha, min(depth, 2), 1):
            for pos in range(1, len(seq) + 1):
                yield (kv, seq[:pos] + ("CLEAR",) + seq[pos:])
    # the empty binding as an insert (stored under the wildcard of every key): short sequences only
    for kv in ("k2", "k3"):
        alpha = bindings(KEYSETS[kv], True)
        for seq in sequences(alpha, 2, 1):
            if () in seq:
                yield (kv + ":empty", seq)


# ---------------------------------------------------------------- reference model
class Ref:
    def __init__(self):
        self.entries = []

    def insert(self, b, out):
        for i, (bb, _) in enumerate(self.entries):
            if bb == b:
                self.entries[i] = (b, out)
                return
        self.entries.append((b, out))

    def clear(self):
        self.entries = []

    def check(self, look):
        return any(all(k in look and look[k] == v for k, v in bb.items()) for bb, _ in self.entries)

    def retrieve(self, look):
        res = []
        for bb, o in self.entries:
            if all(look[k] == v for k, v in bb.items() if k in look):
                m = dict(look)
                m.update(bb)
                res.append((m, o))
        return res


def buggy_retrieve(entries, keys, look):
    """The wildcard-preference defect that was repaired by /repo commit fd85bde, kept as a diagnostic label for
    regressions (a deviation that equals this prediction is reported as `retrieve-sibling-skipped`): at every key level a concrete match hides the wildcard
    sibling (lookup binds the key) and a wildcard entry hides all concrete siblings (lookup leaves the key open)."""
    ks = sorted(keys)

    def rec(i, cand, result):
        if not cand:
            return
        if i == len(ks):
            # one trie path: the last inserted / overwritten entry is the leaf
            yield result, cand[-1][1]
            return
        k = ks[i]
        wild = [e for e in cand if k not in e[0]]
        if k in look:
            conc = [e for e in cand if e[0].get(k) == look[k]]
            yield from rec(i + 1, conc if conc else wild, result)
        else:
            if wild:
                yield from rec(i + 1, wild, result)
            else:
                order = []
                for e in cand:
                    if e[0][k] not in order:
                        order.append(e[0][k])
                for v in order:
                    r2 = dict(result)
                    r2[k] = v
                    yield from rec(i + 1, [e for e in cand if e[0][k] == v], r2)

    # entries in trie-insertion order: the position of the first insert of a path is what dict order preserves
    return list(rec(0, list(entries), dict(look)))


def coexist(entries, keys):
    """scope predicate: some two stored bindings agree on every key before k and then one binds k, the other does not"""
    ks = sorted(keys)
    for (b1, _), (b2, _) in itertools.combinations(entries, 2):
        for k in ks:
            in1, in2 = k in b1, k in b2
            if in1 != in2:
                return True
            if in1 and b1[k] != b2[k]:
                break
    return False


def canon(pairs):
    return sorted((tuple(sorted(m.items())), o) for m, o in pairs)


def run_case(case, inst):
    kv, seq = case
    keys = KEYSETS[kv.split(":")[0]]
    allow_empty = kv.endswith(":empty")
    cache = IndexedCache(list(keys))
    ref = Ref()
    lookups = [dict(b) for b in bindings(keys, True, VALS3 if kv == "k2v3" else VALS)]
    lookups += [{**b, EXTRA_KEY: "x"} for b in lookups[:4]]
    trans = 0
    unexplained = None
    explained = 0
    nontrivial = False
    for step_i, op in enumerate(seq):
        try:
            if op == "CLEAR":
                cache.clear()
                ref.clear()
            else:
                b = dict(op)
                cache.insert({k: HV[v] for k, v in b.items()}, f"o{step_i}")
                ref.insert(b, f"o{step_i}")
        except Exception as e:
            return {"ok": False, "sig": f"op-raised:{type(e).__name__}", "obs": (list(seq[:step_i + 1]), str(e)[:100]),
                    "exp": "no exception", "transitions": trans}
        if len(ref.entries) >= 2:
            nontrivial = True
        in_scope = coexist(ref.entries, keys)
        for look in lookups:
            hl = {k: HV[v] for k, v in look.items()}
            trans += 1
            if any(k in keys for k in look):
                try:
                    cg = cache.check(dict(hl))
                except Exception as e:
                    cg = ("EXC", type(e).__name__)
                ce = ref.check({k: v for k, v in look.items() if k in keys})
                if cg != ce and unexplained is None:
                    unexplained = ("check", list(seq[:step_i + 1]), look, cg, ce)
            try:
                got = [({k: (v.value.lower() if isinstance(v, HashedValue) else repr(v)) for k, v in m.items()}, o)
                       for m, o in cache.retrieve(dict(hl))]
                got_c = canon(got)
            except Exception as e:
                got_c = ("EXC", type(e).__name__, str(e)[:60])
            exp_c = canon(ref.retrieve(look))
            if got_c != exp_c and unexplained is None:
                # diagnostic label only: does the deviation look like the (repaired) wildcard-preference defect?
                old = in_scope and got_c == canon(buggy_retrieve(ref.entries, keys, look))
                unexplained = ("retrieve-sibling-skipped" if old else "retrieve", list(seq[:step_i + 1]), look, got_c, exp_c)
    res = {"ok": unexplained is None and explained == 0, "nontrivial": nontrivial, "transitions": trans,
           "tags": [f"keys={kv}", f"len={len(seq)}"] + (["has_clear"] if "CLEAR" in seq else [])
                   + (["wildcard_and_concrete_siblings"] if explained else []),
           "outcome": None}
    if unexplained is not None:
        kind, hist, look, got, exp = unexplained
        res.update(sig=f"{kind}:{'exc' if isinstance(got, tuple) and got and got[0] == 'EXC' else 'mismatch'}",
                   obs=(f"after {hist}", f"lookup {look}", got), exp=exp)
    return res


def describe(case, inst):
    kv, seq = case
    keys = KEYSETS[kv.split(":")[0]]
    lines = [f"c = IndexedCache({list(keys)})   # values: a=HashedValue('A', id_=101), b=HashedValue('B', id_=102)"]
    for i, op in enumerate(seq):
        lines.append("c.clear()" if op == "CLEAR" else f"c.insert({dict(op)}, 'o{i}')")
    lines.append("# after every step: c.check(b) for every non-empty lookup b, list(c.retrieve(b)) for every lookup b "
                 "(empty and with an extra non-key id too); expected: list-of-(binding, output) reference")
    return "\n".join(lines)
