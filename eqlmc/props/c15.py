"""C15 - a sub-query used inside a query means the same as its conditions inlined.

Enumerated: pairs of sub-query conditions x connective {&, |} x which side(s) are wrapped in an(entity(v, c)) /
an(set_of(vs, c)) x one / two variables; nesting twice; a sub-query as the selected variable; a sub-query (or the(...))
as an operand of ==, != and ordering comparisons (directly and through an attribute), on either side; a sub-query as a
predicate-form argument.
Oracle: the result SET equals (a) the Python oracle of the flattened query (sub-query conditions inlined, existential
reading for operands) and (b) the flattened query evaluated by the library itself.
"""
from __future__ import annotations

from .. import qast as Q
from ..common import (X, Y, A, L, V, REPRESENTATIVE_8, leaves_xy, XY_REP, grid_world, rich_world, VARS3, eval_rows,
                      eval_entity, diff_rows, row_labels, is_exc, exc_obs)
from ..isolate import run_isolated
from ..worlds import build_world

ID = "C15"
ENGINE = "eqlmc-E1"
RULE = ("cases = (family, sub-query conditions, connective, wrapping, position); all combinations listed in cases(); "
        "non-trivial = expected result neither empty nor everything"
        " Wave 7: sub-queries whose own condition is a disjunction / negated conjunction as operands, with only the sub-query's variable selected.")
ASSUMPTIONS = ["result sets compared (a projected sub-query variable may repeat rows)", "values non-falsy (falsy: C19)"]

GRID = grid_world("D")
RICH = rich_world()
VX1 = (("x", "let", "Item", "D"),)
VXY = VARS3[:2]


def wrap(c, kind, vars_):
    """condition c wrapped as a sub-query over the enclosing variables"""
    if kind == "entity_x":
        return ("sq", ("Q", "an", "entity", X, (c,), ()))
    if kind == "entity_y":
        return ("sq", ("Q", "an", "entity", Y, (c,), ()))
    if kind == "setof":
        return ("sq", ("Q", "an", "setof", tuple(("v", v[0]) for v in vars_), (c,), ()))
    return c


def wrap_empty(kind):
    sel = {"entity_x": X, "entity_y": Y}.get(kind)
    if sel is not None:
        return ("sq", ("Q", "an", "entity", sel, (), ()))
    return ("sq", ("Q", "an", "setof", (X, Y), (), ()))


def bounds(tier):
    return {"single_var_pairs": 64, "two_var_pairs": len(leaves_xy()) ** 2 if tier == "thorough" else 49,
            "positions": ["condition", "selected variable", "comparison operand", "attribute operand", "the(...) operand",
                          "predicate-form argument"]}


def cases(tier, inst):
    thorough = tier == "thorough"
    # --- sub-queries as conditions, one variable
    for c1 in REPRESENTATIVE_8:
        for c2 in REPRESENTATIVE_8:
            for op in ("and", "or"):
                for wl, wr in (("entity_x", "entity_x"), ("entity_x", None), (None, "entity_x")):
                    yield ("cond1", c1, c2, op, wl, wr)
    # nested twice and negated inside
    for c1, c2, c3 in ((REPRESENTATIVE_8[0], REPRESENTATIVE_8[1], REPRESENTATIVE_8[2]),
                       (REPRESENTATIVE_8[3], REPRESENTATIVE_8[4], REPRESENTATIVE_8[5]),
                       (REPRESENTATIVE_8[6], REPRESENTATIVE_8[0], REPRESENTATIVE_8[3])):
        for op1 in ("and", "or"):
            for op2 in ("and", "or"):
                yield ("cond1n", c1, c2, c3, op1, op2)
    for c1 in REPRESENTATIVE_8:
        yield ("selected", c1, None)
        for c2 in REPRESENTATIVE_8[:4]:
            yield ("selected", c1, c2)
            yield ("cond1neg", c1, c2)
    # --- two variables
    lv = leaves_xy() if thorough else leaves_xy()[:7]
    for c1 in lv:
        for c2 in lv:
            for op in ("and", "or"):
                for wl, wr in (("setof", "setof"), ("setof", None), (None, "setof")):
                    yield ("cond2", c1, c2, op, wl, wr)
    xonly = [("cmp", "gt", A(X, "p"), L(1)), ("cmp", "le", A(X, "q"), L(1)), ("cmp", "ne", A(X, "p"), L(2))]
    yonly = [("cmp", "eq", A(Y, "q"), L(2)), ("cmp", "ge", A(Y, "p"), L(2))]
    for c1 in xonly:
        for c2 in yonly + XY_REP[:2]:
            for op in ("and", "or"):
                yield ("cond2", c1, c2, op, "entity_x", "entity_y" if c2 in yonly else "setof")
                yield ("cond2", c2, c1, op, "entity_y" if c2 in yonly else "setof", "entity_x")
    # --- sub-query as operand
    subs = xonly + [None, ("cmp", "eq", A(X, "p"), L(5))]          # None: no condition; p == 5: no solution
    # ... and sub-queries whose own condition is a disjunction / a negated conjunction / a conjunction: as the operand that
    # is evaluated second they are evaluated once per binding of the other operand
    subs += [("or", ("cmp", "eq", A(X, "p"), L(2)), ("cmp", "ge", A(X, "q"), L(2))),
             ("or", ("cmp", "le", A(X, "q"), L(1)), ("cmp", "ne", A(X, "p"), L(2))),
             ("not", ("and", ("cmp", "ne", A(X, "p"), L(2)), ("cmp", "lt", A(X, "q"), L(2)))),
             ("and", ("cmp", "ge", A(X, "p"), L(2)), ("or", ("cmp", "eq", A(X, "q"), L(1)), ("cmp", "eq", A(X, "q"), L(3))))]
    for c in subs:
        for op in ("eq", "ne"):
            yield ("operand", c, op, "right")      # y.ref <op> sub
            yield ("operand", c, op, "left")       # sub <op> y.ref
        for op in ("eq", "lt", "ge", "ne"):
            yield ("attr_operand", c, op, "left")  # sub.p <op> y.p
            yield ("attr_operand", c, op, "right")
            # ... selecting the sub-query's variable only: the other operand's variable is needed by nobody above
            yield ("attr_operand_selx", c, op, "left")
            yield ("attr_operand_selx", c, op, "right")
        yield ("pform_arg", c)
    # --- sub-queries that have NO condition of their own (an(entity(x)), an(set_of([x, y]))): as a condition they are
    #     simply true for every binding of what they select
    for j in leaves_xy()[:7]:
        for kind in ("entity_x", "entity_y", "setof"):
            for conn in ("and", "or"):
                for order in ("sub_last", "sub_first"):
                    yield ("emptysub", j, kind, conn, order)
        yield ("emptysub2", j)
    # --- a sub-query operand whose variable is ALREADY BOUND when the comparison runs (right of an & / | whose left
    #     side binds it, either a plain condition or another sub-query), and the reverse order
    lefts = [("cmp", "le", A(X, "q"), L(2)), ("cmp", "ne", A(X, "p"), L(1)), ("sq", sub_q(("cmp", "ge", A(X, "q"), L(1))))]
    for c in xonly + [None]:            # (None: a sub-query without a condition of its own, an(entity(x)))
        for left in lefts:
            for conn in ("and", "or"):
                for order in ("left_first", "operand_first"):
                    for pos in ("operand", "attr_operand", "pform_arg"):
                        if pos == "pform_arg" and conn == "or":
                            continue
                        yield ("bound_operand", c, left, conn, order, pos)
    # --- the comparison with a sub-query operand at EVERY position of a condition tree with two or three leaves (every
    #     shape, every connective assignment), next to plain conditions over x only, y only, and both
    plain = [("cmp", "le", A(X, "q"), L(2)), ("cmp", "eq", A(Y, "q"), L(2)), ("cmp", "ne", A(X, "p"), A(Y, "p"))]
    for c in (xonly if thorough else xonly[:2]):
        for pos in ("operand", "attr_operand"):
            for conn in ("and", "or"):
                for d in plain:
                    yield ("optree", c, pos, ("S", conn, d))
                    yield ("optree", c, pos, (d, conn, "S"))
            for c1 in ("and", "or"):
                for c2 in ("and", "or"):
                    for d1 in plain:
                        for d2 in plain:
                            if d1 == d2:
                                continue
                            for slots in (("S", d1, d2), (d1, "S", d2), (d1, d2, "S")):
                                a_, b_, c_ = slots
                                yield ("optree", c, pos, ((a_, c1, b_), c2, c_))
                                yield ("optree", c, pos, (a_, c1, (b_, c2, c_)))
    # --- CORRELATED sub-queries: the conditions of the(...) / an(...) mention a variable of the enclosing query, the sub-query
    #     is asked for under every binding of that variable (unique solution per binding for `the`: x is y.ref)
    for quant in ("the", "an"):
        for link in ("ident", "attr"):
            if quant == "the" and link == "attr":
                continue                # x.p == y.p has several solutions for some y: `the` would raise by design
            for op in ("ge", "lt", "eq", "ne"):
                for side in ("left", "right"):
                    for extra in (None, ("cmp", "le", A(Y, "q"), L(2)), ("cmp", "ne", A(Y, "p"), L(1))):
                        for pos in ("first", "last"):
                            if extra is None and pos == "last":
                                continue
                            if quant == "the" and side == "left" and not (extra is not None and pos == "last"):
                                # the(...) written first is evaluated before anything binds y: over all y it has several
                                # solutions and raises, by design - a correlated the(...) needs its outer variable bound
                                continue
                            for attr in ("p", "q"):
                                yield ("correlated", quant, link, op, side, extra, pos, attr)
    # --- ONE sub-query object used as an operand in several comparisons of one condition
    for c in (xonly if thorough else xonly[:2]):
        for a_ in range(3):
            for b_ in range(3):
                if a_ == b_:
                    continue
                for conn in ("and", "or"):
                    yield ("samesub", c, (("S", a_), conn, ("S", b_)))
                    for d in plain[:2]:
                        for conn2 in ("and", "or"):
                            yield ("samesub", c, ((("S", a_), conn, ("S", b_)), conn2, d))
                            yield ("samesub", c, (d, conn2, (("S", a_), conn, ("S", b_))))
    # --- an attribute / a boolean method call of a sub-query in CONDITION position: the sub-query's conditions and that
    #     boolean, at every position of a tree with up to two leaves
    gplain = [("cmp", "le", A(X, "q"), L(2)), ("cmp", "ne", A(X, "p"), L(2))]
    for c in REPRESENTATIVE_8[:6]:
        for kind in ("flag", "call", "callattr"):
            yield ("subcond", c, kind, "S")
            for d in gplain:
                for conn in ("and", "or"):
                    yield ("subcond", c, kind, ("S", conn, d))
                    yield ("subcond", c, kind, (d, conn, "S"))
    # --- a sub-query whose only condition is a USER PREDICATE (function / class, plain / negated), one object used in a
    #     comparison and as a predicate argument; the same query is evaluated three times
    for c in PRED_CONDS:
        for second in range(len(PRED_SECOND)):
            for perm in (0, 1, 2):          # the domain as given, reversed, rotated: what the LAST object does matters
                yield ("predsub", c, second, perm)
    for k in (3, 1):                                # the(...) with a unique solution (p == 3) / (q == 3 -> p==2,q==3)
        for op in ("eq", "ne"):
            yield ("the_operand", k, op)
        for op in ("lt", "ge"):
            yield ("the_attr", k, op)
        yield ("the_pform", k)


PRED_CONDS = [("pf", "p_below", (X, L(3))), ("pc", "PEq", (X, L(2))), ("not", ("pf", "p_eq", (X, L(1)))), ("pf", "val_eq", (A(X, "flag"), ("lb", "True")))]
PRED_SECOND = [lambda s: ("pf", "val_eq", (A(s, "q"), L(2))), lambda s: ("pc", "PEq", (s, L(2))), lambda s: ("cmp", "le", A(s, "q"), L(2))]


def sub_q(c, quant="an"):
    return ("Q", quant, "entity", X, (c,) if c else (), ())


def queries_of(case):
    """-> (nested query, flattened query, world spec)"""
    fam = case[0]
    if fam == "cond1":
        _, c1, c2, op, wl, wr = case
        n = ("Q", "an", "entity", X, ((op, wrap(c1, wl, VX1), wrap(c2, wr, VX1)),), VX1)
        f = ("Q", "an", "entity", X, ((op, c1, c2),), VX1)
        return n, f, GRID
    if fam == "cond1n":
        _, c1, c2, c3, op1, op2 = case
        inner = ("sq", ("Q", "an", "entity", X, ((op1, wrap(c1, "entity_x", VX1), c2),), ()))
        n = ("Q", "an", "entity", X, ((op2, inner, wrap(c3, "entity_x", VX1)),), VX1)
        f = ("Q", "an", "entity", X, ((op2, (op1, c1, c2), c3),), VX1)
        return n, f, GRID
    if fam == "cond1neg":
        _, c1, c2 = case
        n = ("Q", "an", "entity", X, (("and", ("sq", ("Q", "an", "entity", X, (("not", c1),), ())), c2),), VX1)
        f = ("Q", "an", "entity", X, (("and", ("not", c1), c2),), VX1)
        return n, f, GRID
    if fam == "selected":
        _, c1, c2 = case
        n = ("Q", "an", "entity", ("sub", ("Q", "an", "entity", X, (c1,), VX1)), (c2,) if c2 else (), ())
        f = ("Q", "an", "entity", X, (c1,) + ((c2,) if c2 else ()), VX1)
        return n, f, GRID
    if fam == "cond2":
        _, c1, c2, op, wl, wr = case
        n = ("Q", "an", "setof", (X, Y), ((op, wrap(c1, wl, VXY), wrap(c2, wr, VXY)),), VXY)
        f = ("Q", "an", "setof", (X, Y), ((op, c1, c2),), VXY)
        return n, f, RICH
    vy = (VXY[1],)
    vxy_decl = VXY
    if fam == "attr_operand_selx":
        _, c, op, side = case
        s = ("sub", sub_q(c))
        a, b, fa, fb = A(s, "p"), A(Y, "p"), A(X, "p"), A(Y, "p")
        if side == "right":
            a, b, fa, fb = b, a, fb, fa
        n = ("Q", "an", "entity", X, (("cmp", op, a, b),), vxy_decl)
        f = ("Q", "an", "entity", X, (("cmp", op, fa, fb),) + ((c,) if c else ()), vxy_decl)
        return n, f, RICH
    if fam in ("operand", "attr_operand"):
        _, c, op, side = case
        s = ("sub", sub_q(c))
        a, b = (A(s, "p"), A(Y, "p")) if fam == "attr_operand" else (s, A(Y, "ref"))
        fa, fb = (A(X, "p"), A(Y, "p")) if fam == "attr_operand" else (X, A(Y, "ref"))
        if side == "right":
            a, b, fa, fb = b, a, fb, fa
        n = ("Q", "an", "entity", Y, (("cmp", op, a, b),), vxy_decl)
        f = ("Q", "an", "entity", Y, (("cmp", op, fa, fb),) + ((c,) if c else ()), vxy_decl)
        return n, f, RICH
    if fam == "pform_arg":
        _, c = case
        n = ("Q", "an", "entity", ("pform", "Item", "DB", (), (("ref", ("sub", sub_q(c))),)), (), (VXY[0],))
        f = ("Q", "an", "entity", Y, (("cmp", "eq", A(Y, "ref"), X),) + ((c,) if c else ()), vxy_decl)
        return n, f, RICH
    if fam in ("emptysub", "emptysub2"):
        j = case[1]
        if fam == "emptysub2":          # an(entity(x)) & an(entity(y)) & join
            tree = ("and", ("and", wrap_empty("entity_x"), wrap_empty("entity_y")), j)
        else:
            _, j, kind, conn, order = case
            e = wrap_empty(kind)
            tree = (conn, j, e) if order == "sub_last" else (conn, e, j)
        n = ("Q", "an", "setof", (X, Y), (tree,), VXY)
        return n, None, RICH             # the reference semantics reads an empty sub-query as `true`
    if fam == "bound_operand":
        _, c, left, conn, order, pos = case
        s = ("sub", sub_q(c))
        flat_left = ("and",) + tuple(left[1][4]) if left[0] == "sq" and len(left[1][4]) > 1 else (left[1][4][0] if left[0] == "sq" else left)
        if pos == "pform_arg":
            # Item(From(DB), ref=sub) selected, conjoined with a condition on the sub-query's variable
            term = ("bound", "y", ("pform", "Item", "DB", (), (("ref", s),)))
            conds = (left,)
            n = ("Q", "an", "entity", term, conds, (VXY[0],))
            f = ("Q", "an", "entity", Y, (("cmp", "eq", A(Y, "ref"), X),) + ((c,) if c else ()) + (flat_left,), vxy_decl)
            return n, f, RICH
        cmp_n = ("cmp", "eq", A(Y, "ref"), s) if pos == "operand" else ("cmp", "ge", A(Y, "p"), A(s, "p"))
        cmp_f = ("cmp", "eq", A(Y, "ref"), X) if pos == "operand" else ("cmp", "ge", A(Y, "p"), A(X, "p"))
        cmp_f = ("and", cmp_f, c) if c else cmp_f
        pair_n = (left, cmp_n) if order == "left_first" else (cmp_n, left)
        pair_f = (flat_left, cmp_f) if order == "left_first" else (cmp_f, flat_left)
        n = ("Q", "an", "setof", (X, Y), ((conn,) + pair_n,), vxy_decl)
        f = ("Q", "an", "setof", (X, Y), ((conn,) + pair_f,), vxy_decl)
        return n, f, RICH
    if fam == "optree":
        _, c, pos, tree = case
        s = ("sub", sub_q(c))
        cmp_n = ("cmp", "eq", A(Y, "ref"), s) if pos == "operand" else ("cmp", "ge", A(Y, "p"), A(s, "p"))
        cmp_f = ("cmp", "eq", A(Y, "ref"), X) if pos == "operand" else ("cmp", "ge", A(Y, "p"), A(X, "p"))
        cmp_f = ("and", cmp_f, c) if c else cmp_f

        def inst_tree(t, leaf):
            if t == "S":
                return leaf
            if len(t) == 3 and t[1] in ("and", "or") and not isinstance(t[0], str) or (len(t) == 3 and t[0] == "S"):
                return (t[1], inst_tree(t[0], leaf), inst_tree(t[2], leaf))
            return t
        n = ("Q", "an", "setof", (X, Y), (inst_tree(tree, cmp_n),), vxy_decl)
        f = ("Q", "an", "setof", (X, Y), (inst_tree(tree, cmp_f),), vxy_decl)
        return n, f, RICH
    if fam == "correlated":
        _, quant, link, op, side, extra, pos, attr = case
        linkc = ("cmp", "eq", X, A(Y, "ref")) if link == "ident" else ("cmp", "eq", A(X, "p"), A(Y, "p"))
        s = ("sub", ("Q", quant, "entity", X, (linkc,), ()))
        a, b, fa, fb = A(s, attr), A(Y, attr), A(X, attr), A(Y, attr)
        if side == "right":
            a, b, fa, fb = b, a, fb, fa
        cn, cf = ("cmp", op, a, b), ("and", ("cmp", op, fa, fb), linkc)
        conds_n = (cn,) if extra is None else ((extra, cn) if pos == "last" else (cn, extra))
        conds_f = (cf,) if extra is None else ((extra, cf) if pos == "last" else (cf, extra))
        n = ("Q", "an", "entity", Y, conds_n, (VXY[1], VXY[0]))
        f = ("Q", "an", "entity", Y, conds_f, (VXY[1], VXY[0]))
        return n, f, RICH
    if fam == "samesub":
        _, c, tree = case
        s = ("sub1", sub_q(c))                    # ONE sub-query object for every occurrence
        cmps_n = [("cmp", "eq", A(Y, "ref"), s), ("cmp", "ge", A(Y, "p"), A(s, "p")), ("cmp", "le", A(s, "q"), A(Y, "q"))]
        cmps_f = [("and", ("cmp", "eq", A(Y, "ref"), X), c), ("and", ("cmp", "ge", A(Y, "p"), A(X, "p")), c),
                  ("and", ("cmp", "le", A(X, "q"), A(Y, "q")), c)]

        def inst2(t, cmps):
            if isinstance(t, tuple) and len(t) == 2 and t[0] == "S":
                return cmps[t[1]]
            if isinstance(t, tuple) and len(t) == 3 and t[1] in ("and", "or"):
                return (t[1], inst2(t[0], cmps), inst2(t[2], cmps))
            return t
        n = ("Q", "an", "setof", (X, Y), (inst2(tree, cmps_n),), vxy_decl)
        f = ("Q", "an", "setof", (X, Y), (inst2(tree, cmps_f),), vxy_decl)
        return n, f, RICH
    if fam == "predsub":
        _, c, second, perm = case
        s_ = ("sub1", sub_q(c))
        n = ("Q", "an", "entity", X, (("cmp", "ge", A(s_, "p"), L(2)), PRED_SECOND[second](s_)), VX1)
        f = ("Q", "an", "entity", X, (c, ("cmp", "ge", A(X, "p"), L(2)), PRED_SECOND[second](X)), VX1)
        return n, f, GRID
    if fam == "subcond":
        _, c, kind, tree = case
        s = ("sub", sub_q(c))
        sa_n = {"flag": ("t", A(s, "flag")), "call": ("t", ("c", s, "p_ge", (2,))),
                "callattr": ("t", ("c", A(s, "ref"), "p_ge", (2,)))}[kind]
        sa_f = ("and", c, {"flag": ("t", A(X, "flag")), "call": ("t", ("c", X, "p_ge", (2,))),
                           "callattr": ("t", ("c", A(X, "ref"), "p_ge", (2,)))}[kind])

        def inst3(t, leaf):
            if t == "S":
                return leaf
            if isinstance(t, tuple) and len(t) == 3 and t[1] in ("and", "or") and (t[0] == "S" or t[2] == "S"):
                return (t[1], inst3(t[0], leaf), inst3(t[2], leaf))
            return t
        n = ("Q", "an", "entity", X, (inst3(tree, sa_n),), VX1)
        f = ("Q", "an", "entity", X, (inst3(tree, sa_f),), VX1)
        return n, f, GRID
    thec = {3: ("cmp", "eq", A(X, "p"), L(3)), 1: ("cmp", "eq", A(X, "q"), L(3))}
    if fam in ("the_operand", "the_attr"):
        _, k, op = case
        s = ("sub", sub_q(thec[k], "the"))
        if fam == "the_operand":
            n = ("Q", "an", "entity", Y, (("cmp", op, A(Y, "ref"), s),), vxy_decl)
            f = ("Q", "an", "entity", Y, (("cmp", op, A(Y, "ref"), X), thec[k]), vxy_decl)
        else:
            n = ("Q", "an", "entity", Y, (("cmp", op, A(Y, "p"), A(s, "p")),), vxy_decl)
            f = ("Q", "an", "entity", Y, (("cmp", op, A(Y, "p"), A(X, "p")), thec[k]), vxy_decl)
        return n, f, RICH
    if fam == "the_pform":
        _, k = case
        n = ("Q", "an", "entity", ("pform", "Item", "DB", (), (("ref", ("sub", sub_q(thec[k], "the"))),)), (), (VXY[0],))
        f = ("Q", "an", "entity", Y, (("cmp", "eq", A(Y, "ref"), X), thec[k]), vxy_decl)
        return n, f, RICH
    raise ValueError(case)


def evaluate(q, world, inst):
    if q[2] == "entity":
        r = eval_entity(q, world, inst)
        return r if is_exc(r) else [(o,) for o in r]
    return eval_rows(q, world, inst)


def run_case(case, inst):
    n, f, wspec = queries_of(case)

    def body():
        world = build_world(wspec, inst)
        if case[0] == "predsub":
            from .c18 import PermInst
            world = build_world(wspec, PermInst(inst, case[3]))
            # ONE query object evaluated three times: all three answers (the first that differs is reported)
            try:
                obj, b = Q.build(n, world, inst)
                answers = [[(o,) for o in obj.evaluate()] for _ in range(3)]
            except Exception as e:
                answers = [exc_obs(e)]
            got = answers
        else:
            got = evaluate(n, world, inst)
        world2 = build_world(wspec, inst)
        f_ = f if f is not None else n
        flat = evaluate(f_, world2, inst) if f is not None else None
        ref = Q.Ref(world2, inst)
        sel = f_[3] if f_[2] == "setof" else (f_[3],)
        sols = ref.solutions(f_)
        exp = [tuple(ref.value(s, env) for s in sel) for env in sols]
        total = 1
        for v in f_[5]:
            total *= len(ref.domain(v))
        restricted = None
        if case[0] == "bound_operand":
            # alternative semantics of the recorded finding: the sub-query operand restricts its variable for the whole
            # disjunction, not only for the comparison it is an operand of
            restricted = [tuple(ref.value(s, env) for s in sel) for env in sols if case[1] is None or ref.holds(case[1], env)]
        return got, flat, exp, total, restricted

    got, flat, exp, total, restricted = run_isolated(body)
    if case[0] == "predsub":
        bad = [g for g in got if diff_rows(g, exp, count=False) is not None]
        got = bad[0] if bad else got[0]
    nset = len({tuple(Q.norm(v) for v in r) for r in exp})
    res = {"ok": True, "nontrivial": 0 < len(exp) < total, "transitions": 2, "tags": [f"family={case[0]}"],
           "outcome": f"{case[0]}:{nset}"}
    d = diff_rows(got, exp, count=False)
    if d is not None:
        res.update(ok=False, sig=f"{case[0]}:{d}", obs=row_labels(got), exp=row_labels(exp))
        if restricted is not None:
            res["kf_hint"] = {"equals_restricted_reading": diff_rows(got, restricted, count=False) is None}
    elif flat is not None:
        d2 = diff_rows(flat, exp, count=False)
        if d2 is not None:
            res.update(ok=False, sig=f"{case[0]}:flattened-form-{d2}", obs=("flattened", row_labels(flat)), exp=row_labels(exp))
    return res


# ---------------------------------------------------------------- known-finding hooks (see eqlmc/kf.py)
def _scope_or_operand_first(case, inst):
    return case[0] == "bound_operand" and case[3] == "or" and case[4] == "operand_first"


def _model_restricts_whole_disjunction(case, inst, sig, obs, hint):
    return sig == "bound_operand:missing" and bool(hint) and hint.get("equals_restricted_reading") is True


KF_SCOPES = {"subquery_operand_is_left_disjunct": _scope_or_operand_first}
KF_MODELS = {"operand_restricts_whole_disjunction": _model_restricts_whole_disjunction}


def describe(case, inst):
    n, f, wspec = queries_of(case)
    return (Q.up_world(wspec, inst) + "\n" + Q.up_query(n, inst) + "\n# flattened: "
            + (Q.up_query(f, inst) if f is not None else "a sub-query without conditions is `true`")
            + "\n# expected: set(list(q.evaluate())) equal for both forms and equal to the Python oracle")
