"""C01 - a single-variable query is an exact, ordered, duplicate-free domain filter.

Enumerated: every condition tree up to the tier's depth over the leaf vocabulary, one variable declared by let(T, d) and
by T(From(d)), connectives written with operators / with and_ or_ ~ / as several conditions to entity().
Oracle: [o for o in domain if cond(o)] compared as a list by identity (missing, extra, duplicate, order).
Data: the grid (p, q in {1,2,3}^2 + a twin with equal attribute values), all derived values non-falsy (falsy values are
C19's subject), so that every comparator row and both membership directions are separated.
"""
from __future__ import annotations

import itertools

from .. import qast as Q
from ..common import (X, L, leaves_single, REPRESENTATIVE_4, REPRESENTATIVE_8, to_fn_form, root_kind, grid_world,
                      eval_entity, eval_entity_after_partial, diff_lists, labels, is_exc)
from ..isolate import run_isolated
from ..space import trees_by_depth
from ..worlds import build_world

ID = "C01"
ENGINE = "eqlmc-E1"
RULE = ("cases = (condition tree, declaration style, surface form), enumerated exhaustively: all trees of depth<=d over "
        "the leaf vocabulary (distinct by construction, simplest first); a case is non-trivial when the expected "
        "answer is neither empty nor the whole domain"
        ' Wave 7: domain shapes (empty / foreign / mixed members as list, tuple, generator, From), one negated leaf object, one and_/or_ object, one predicate call object used in several places, a comparison object in 3-4 places, a predicate parameter with a default.')
ASSUMPTIONS = ["domain = grid dataset of 10 distinct objects (incl. a twin), attribute values non-falsy (falsy: C19)"]

WSPEC = grid_world("D")
PAIRS = [(REPRESENTATIVE_8[0], REPRESENTATIVE_8[1]), (REPRESENTATIVE_8[2], REPRESENTATIVE_8[3]),
         (REPRESENTATIVE_8[4], REPRESENTATIVE_8[7])]


def bounds(tier):
    if tier == "quick":
        return {"depth1_leaves": len(leaves_single()), "depth2_leaves": 4, "forms": ["op", "fn", "multi"],
                "decl": ["let", "from"]}
    return {"depth1_leaves": len(leaves_single()), "depth2_leaves": 8, "depth3_leaf_pairs": len(PAIRS),
            "forms": ["op", "fn", "multi"], "decl": ["let", "from"]}


def cases(tier, inst):
    full = leaves_single()
    # depth <= 1 over the full vocabulary, all styles/forms
    for t in trees_by_depth(full, 1):
        for style in ("let", "from"):
            yield (t, style, "op")
        yield (to_fn_form(t), "let", "fn")
        yield (t, "let", "noentity")          # an(x, condition) without entity()
        if t[0] in ("and", "or"):
            # sub-expressions such as e = x.p written once and reused in both operands (no negation: not_() inverts its
            # operand in place, what a reused-and-negated expression object means is not specified anywhere)
            yield (t, "let", "shared")
            yield (t, "lettuple", "op")
            yield (t, "letgen", "op")
        if t[0] == "and":
            yield (t, "let", "multi")
    # ONE comparison / membership object written once (c = x.p > 1) and used in several places of the condition (no
    # negation, see above)
    PRED_LEAVES = [("pf", "p_eq", (X, L(1))), ("pc", "PEq", (X, L(2)))]
    for a, b in itertools.permutations((REPRESENTATIVE_8[:6] if tier == "thorough" else REPRESENTATIVE_4) + PRED_LEAVES, 2):
        if a[0] not in ("cmp", "in", "has", "pf", "pc"):
            continue
        for t in (("or", a, ("and", a, b)), ("and", ("or", a, b), a), ("or", b, ("and", a, a)), ("and", a, ("or", b, a)),
                  ("or", ("and", a, b), a), ("and", a, a), ("or", a, a)):
            yield (t, "let", "sharedc")
    # ONE comparison object in three and four places, nested two levels deep
    for a, b in itertools.permutations((REPRESENTATIVE_8[:6] if tier == "thorough" else REPRESENTATIVE_4) + PRED_LEAVES, 2):
        if a[0] not in ("cmp", "in", "has", "pf", "pc"):
            continue
        for t in (("or", ("or", a, a), ("or", b, a)), ("and", ("or", a, b), ("or", b, a)),
                  ("or", a, ("or", b, a)), ("and", ("or", a, a), ("or", a, b)), ("or", ("or", a, b), ("or", a, a))):
            yield (t, "let", "sharedc")
    # ONE and_(...) / or_(...) object (s = and_(a, b), s = a | b) written once and used in several places
    reps_l = REPRESENTATIVE_8[:6] if tier == "thorough" else REPRESENTATIVE_4
    for a, b in itertools.permutations(reps_l, 2):
        for op in ("and", "or"):
            s_ = (op, a, b)
            for c in reps_l:
                if c in (a, b):
                    continue
                for t in (("or", s_, s_), ("and", s_, s_), ("orf", s_, c, s_), ("and", s_, ("or", s_, c)), ("or", s_, ("and", s_, c)),
                          ("or", ("and", s_, c), s_), ("and", ("or", s_, c), s_), ("andf", c, s_, s_)):
                    yield (t, "let", "sharedl")
    # ONE negated leaf (s = not_(x.flag), s = not_(x.p < 2)) or one truth-position expression (s = x.flag) written once and
    # used in several places: the negated object as a whole is reused, never one object negated in one place only
    reps_n = (REPRESENTATIVE_8 if tier == "thorough" else REPRESENTATIVE_4) + PRED_LEAVES
    for a0 in reps_n:
        for a in ([("not", a0)] + ([a0] if a0[0] == "t" else [])):
            for b in reps_n:
                if b == a0:
                    continue
                for t in (("or", a, ("and", a, b)), ("and", ("or", a, b), a), ("or", b, ("and", a, a)),
                          ("and", a, ("or", b, a)), ("or", ("and", a, b), a), ("and", a, a), ("or", a, a),
                          ("and", ("or", a, b), ("or", a, ("not", b)))):
                    yield (t, "let", "sharedn")
    # conditions that mention no variable: a membership test between two constants, a plain Python bool (the signatures of
    # entity / an / and_ / or_ accept `bool`) - alone next to a real condition, and inside and_ / or_ on either side
    consts = [("in", L(3), L((1, 2, 3))), ("in", L(5), L((1, 2, 3))), ("has", L((1, 2)), L(2)), ("const", "True"), ("const", "False")]
    for k in consts:
        for a in REPRESENTATIVE_4:
            yield (("andf", a, k), "let", "multi")
            yield (("andf", k, a), "let", "multi")
            for form in ("andf", "orf"):
                yield ((form, a, k), "let", "op")
                yield ((form, k, a), "let", "op")
            if k[0] != "const":
                yield (("or", ("and", a, k), REPRESENTATIVE_4[0]), "let", "op")
    # domain objects whose class has a field called `_id_` with the same value in every instance: they are distinct objects
    for t in trees_by_depth(REPRESENTATIVE_8 if tier == "thorough" else REPRESENTATIVE_4, 1):
        yield (t, "let", "idattr")
    # the SHAPE of the supplied domain: empty, holding no object of the variable's type (objects of another class, plain
    # values), holding such non-members between the members - as a list, a tuple, a generator, through From(); objects of
    # the variable's type exist elsewhere in the program (the registry is not a substitute for a domain that was given)
    for kind in DOMSHAPES:
        for t in trees_by_depth(REPRESENTATIVE_8 if tier == "thorough" else REPRESENTATIVE_4, 1):
            for style in ("let", "from", "lettuple", "letgen", "letn"):
                yield (t, style, "dom:" + kind)
    # three operands given to and_() / or_() / entity()
    for a, b, c in itertools.product(REPRESENTATIVE_8 if tier == "thorough" else REPRESENTATIVE_4, repeat=3):
        yield (("andf", a, b, c), "let", "op")
        yield (("orf", a, b, c), "let", "op")
        yield (("andf", a, b, c), "let", "multi3")
        yield (("orf", a, ("andf", b, c), a), "from", "shared")
    reps = REPRESENTATIVE_4 if tier == "quick" else REPRESENTATIVE_8
    for t in trees_by_depth(reps, 2):
        if Q.depth(t) < 2:
            continue
        yield (t, "let", "op")
        if tier == "thorough" or t[0] == "not":
            yield (to_fn_form(t), "from", "fn")
    if tier == "thorough":
        for pair in PAIRS:
            for t in trees_by_depth(list(pair), 3):
                if Q.depth(t) < 3:
                    continue
                yield (t, "let", "op")


def query_of(case):
    tree, style, form = case
    conds = (tree[1], tree[2]) if form == "multi" else (tuple(tree[1:]) if form == "multi3" else (tree,))
    return ("Q", "an", "entity0" if form == "noentity" else "entity", X, conds, (("x", style, "Item", "D"),))


_GRID_ROWS = WSPEC[-1][2]
_FOREIGN = (("cls", "Other", ("p", 2), ("q", 2)), ("raw", 5), ("cls", "Other", ("p", 3), ("q", 1)), ("raw", None), ("raw", "s"))
DOMSHAPES = {
    "empty": (),
    "foreign": _FOREIGN,
    "mixed": tuple(r for i, row in enumerate(_GRID_ROWS) for r in ((row, _FOREIGN[i % len(_FOREIGN)]) if i % 2 else (row,))),
    "foreign_first": _FOREIGN[:2] + _GRID_ROWS[:4],
}


def wspec_for(form):
    if form == "idattr":
        return WSPEC_ID
    if form.startswith("dom:"):
        # the members keep their spec index as tag, the grid of kid objects (class Item too) stays: Items exist elsewhere
        return WSPEC[:-1] + (("D", "Item", DOMSHAPES[form[4:]]),)
    return WSPEC


WSPEC_ID = tuple((dk, "IdItem" if dk == "D" else cls, rows) for dk, cls, rows in WSPEC)


SHARE_CONDS = {"sharedc": True, "sharedn": "neg", "sharedl": "ops"}


def run_case(case, inst):
    q = query_of(case)
    tree = case[0]
    wspec = wspec_for(case[2])

    def body():
        world = build_world(wspec, inst)
        got = eval_entity(q, world, inst, share_terms=(case[2] == "shared"), share_conds=SHARE_CONDS.get(case[2], False))
        exp = [env["x"] for env in Q.Ref(world, inst).solutions(q)]
        # built afresh on a fresh world: a FIRST evaluation closed after two results, then evaluated fully, twice
        world2 = build_world(wspec, inst)
        later = eval_entity_after_partial(q, world2, inst, share_terms=(case[2] == "shared"),
                                          share_conds=SHARE_CONDS.get(case[2], False))
        exp2 = [env["x"] for env in Q.Ref(world2, inst).solutions(q)]
        return got, exp, len(world["D"]), later, exp2

    got, exp, n, later, exp2 = run_isolated(body)
    d = diff_lists(got, exp, ordered=True)
    if d is None:
        for name, g in zip(("after-abandoned-evaluation", "after-abandoned-evaluation-again"), later):
            if g is not None and diff_lists(g, exp2, ordered=True) is not None:
                d, got, exp = f"{name}:{diff_lists(g, exp2, ordered=True)}", g, exp2
                break
    res = {"ok": d is None, "nontrivial": 0 < len(exp) < n, "transitions": 1 + (0 if is_exc(got) else len(got)),
           "tags": [f"root={root_kind(tree)}", f"form={case[2]}", f"decl={case[1]}"]
                   + (["has_not"] if Q.has_kind(tree, ("not", "inv")) else [])
                   + (["has_or"] if Q.has_kind(tree, ("or", "orf")) else []),
           "outcome": f"{len(exp)}"}
    if d is not None:
        res.update(sig=f"{d}/root={root_kind(tree)}", obs=labels(got), exp=labels(exp))
    return res


def describe(case, inst):
    return (Q.up_world(wspec_for(case[2]), inst) + "\n" + Q.up_query(query_of(case), inst)
            + "\nresult = list(q.evaluate())   # expected: [o for o in D if <condition>(o)], same order, by identity"
            "\n# and, built afresh: it = q.evaluate(); next(it, None); next(it, None); it.close(); list(q.evaluate()); "
            "list(q.evaluate())   # expected (both): the same")
