"""C14 - a variable without a domain ranges over exactly the live registry of instances.

Engine E2.  Operations: construct concretely (positional / keyword / defaults; base dataclass, decorated subclass,
undecorated subclass, hand-written __init__, an unrelated type) - construct symbolically inside a query-mode / rule-mode
block - run an inference rule (its instances are real and count) - clear the registry the way the repository's test
fixture does - DECLARE a no-domain query for a type (let(T) / T() in a block) - EVALUATE a declared query.  Declaration
and evaluation are separate operations because the implementation fixes things at both moments.
Reference: the harness's own append-only log of concretely constructed objects since the last clear; at every
evaluation the result must be exactly the logged instances of the type (subclasses included), each once, by identity;
a symbolic construction leaves the log, the registry and the class's __init__ call counter unchanged.
"""
from __future__ import annotations

import eqlmc  # noqa: F401
from entity_query_language import (an, the, entity, let, infer, symbolic_mode, rule_mode, MultipleSolutionFound, and_, or_, not_, Add,
                                   NoSolutionFound)
from entity_query_language.symbolic import SymbolicExpression

from .. import worlds as W
from .. import qast as Q
from ..common import (exc_obs, is_exc, X, Y, A, L, leaves_single, leaves_xy, REPRESENTATIVE_8, grid_world, eval_entity,
                      eval_rows, diff_lists, diff_rows, labels, row_labels, root_kind)
from ..isolate import run_isolated, clear_registry
from ..space import histories, trees_by_depth
from ..worlds import build_world

ID = "C14"
ENGINE = "eqlmc-E2"
TECHNIQUE = ("stateless exploration of every construct / declare / evaluate / infer / clear history up to a depth bound on "
             "the real library, compared with an append-only reference log")
RULE = ("cases = operation histories ending in an evaluation or a symbolic construction (a history ending otherwise adds "
        "no observation to its prefix), every enabled sequence up to the depth bound; non-trivial = an instance is "
        "constructed between the declaration and an evaluation of some query, or after its first evaluation"
        ' Wave 7: @conds histories - a no-domain variable that several conditions mention (conjunction, disjunction, negated disjunction), constructions between evaluations.')
ASSUMPTIONS = ["`so far` is read as: at the time the query is evaluated"]
BATCH = 200
TASKS_PER_CHILD = 6

KONS = {
    "KB": lambda n: W.Base(n, 7, f"B{n}"),                 # positional
    "KS": lambda n: W.Sub(k=n, tag=f"S{n}"),               # keyword, default v
    "KU": lambda n: W.USub(n, w=3, tag=f"U{n}"),           # mixed, undecorated subclass
    "KL": lambda n: W.Leaf(n, tag=f"L{n}"),                # third level: Base <- Sub <- Leaf
    "KH": lambda n: W.Hand(n, tag=f"H{n}"),                # hand-written __init__
    "KO": lambda n: W.Other(p=n, tag=f"O{n}"),             # unrelated type
    "KD": lambda n: W.Dflt(),                              # no argument at all: every field from its default
    "K0": lambda n: W.Hand0(),                             # hand-written __init__(self), no argument
}
DECL = {"DB": "Base", "DS": "Sub", "DH": "Hand", "DU": "USub", "DD": "Dflt", "D0": "Hand0",
        "DBc": "Base", "DSk": "Sub",     # DBc: with a condition (v.k >= 1); DSk: predicate form with a field constraint
        "DHt": "Hand",                   # DHt: the(entity(let(Hand))): NoSolutionFound / the instance / MultipleSolutionFound
        "DRh": "Hand",
        "DHa": "Hand"}                   # DHa: an(entity(v.k)) - only an ATTRIBUTE of the no-domain variable is selected                   # DRh: a rule whose HEAD (only) mentions a no-domain variable: Made(a=x, b=let(Hand))
# declarations of the @conds family only (a no-domain variable that SEVERAL conditions mention)
DECL2 = {"DBcc": "Base", "DBo": "Base", "DBn": "Base",
         "DRa": "Hand"}      # DRa: a rule written with Add whose CONCLUSION only mentions a no-domain variable
DECL.update(DECL2)
SYMB = ("YB", "YH", "YS")
MAX_Q = 2


def initial():
    return (0, 0)    # number of declared queries, number of ops


def enabled(st):
    nq, _ = st
    ops = list(KONS) + list(SYMB) + ["R", "C"]
    if nq < MAX_Q:
        ops += [d for d in DECL if d not in DECL2]
    ops += [f"E{i}" for i in range(1, nq + 1)]
    return ops


def step(st, op):
    nq, n = st
    return (nq + (1 if op in DECL else 0), n + 1)


def c_enabled(st):
    """the @conds family: a small alphabet of its own around queries whose variable is mentioned by several conditions"""
    nq, _ = st
    ops = ["KB", "KS", "KH", "KO", "C", "R"]
    if nq < MAX_Q:
        ops += list(DECL2) + ["DBc"]
    ops += [f"E{i}" for i in range(1, nq + 1)]
    return ops


def bounds(tier):
    return {"history_depth": 5 if tier == "quick" else 6, "max_declared_queries": MAX_Q,
            "alphabet": list(KONS) + list(SYMB) + ["R", "C"] + list(DECL) + ["E1", "E2"]}


GRID = grid_world("D", kid_cls="Kid")
_da = ((("p", 1), ("q", 1)), (("p", 2), ("q", 1)), (("p", 3), ("q", 2)), (("p", 2), ("q", 3)))
_do = tuple((("p", p), ("q", q), ("ref", ("@", "DA", r))) for p, q, r in ((1, 2, 0), (1, 3, 2), (2, 2, 1), (3, 1, 1)))
TWO = (("DA", "Item", _da), ("DO", "Other", _do))
XY_LEAVES = leaves_xy()[:10] + [("pf", "p_lt", (X, Y)), ("pc", "PLt", (X, Y))]


def query_cases(tier):
    """E1 family: condition trees over variables that have no domain (the registry holds exactly the world's objects)"""
    full = leaves_single()
    for style in ("bare", "barecall"):
        for t in full:
            yield ("Q1", t, style)
            yield ("Q1", ("not", t), style)
        for t in trees_by_depth(REPRESENTATIVE_8 if tier == "thorough" else REPRESENTATIVE_8[:5], 1):
            if t[0] in ("and", "or"):
                yield ("Q1", t, style)
    for sx, sy in (("bare", "bare"), ("barecall", "bare"), ("let", "bare"), ("bare", "let"), ("barecall", "barecall")):
        for t in trees_by_depth(XY_LEAVES, 1 if tier == "quick" else 2, binary=("and", "or")):
            if tier == "thorough" and Q.depth(t) == 2 and hash(repr(t)) % 40:
                continue
            if tier == "quick" and (sx, sy) != ("bare", "bare") and Q.depth(t) == 1 and t[0] != "not" and hash(repr(t)) % 4:
                continue
            yield ("Q2", t, sx, sy)


def run_query_case(case, inst):
    if case[0] == "Q1":
        _, tree, style = case
        wspec = GRID
        q = ("Q", "an", "entity", X, (tree,), (("x", style, "Item", "D"),))
    else:
        _, tree, sx, sy = case
        wspec = TWO
        q = ("Q", "an", "setof", (X, Y), (tree,), (("x", sx, "Item", "DA"), ("y", sy, "Other", "DO")))

    def body():
        world = build_world(wspec, inst)
        ref = Q.Ref(world, inst)
        try:
            obj, b = Q.build(q, world, inst)
            got = [list(obj.evaluate()), None, list(obj.evaluate())]
            it = obj.evaluate()       # take one result and close, then a third full evaluation
            next(it, None)
            it.close()
            got[1] = list(obj.evaluate())
            if case[0] == "Q2":
                got = [[tuple(r[s] for s in b.sel[q]) for r in g] for g in got]
        except Exception as e:
            got = [exc_obs(e)] * 3
        if case[0] == "Q1":
            exp = [env["x"] for env in ref.solutions(q)]
            total = len(ref.domain(q[5][0]))
            return got, exp, total
        exp = [(env["x"], env["y"]) for env in ref.solutions(q)]
        return got, exp, len(ref.domain(q[5][0])) * len(ref.domain(q[5][1]))

    gots, exp, total = run_isolated(body)
    d, got, which = None, gots[0], 0
    for which, got in enumerate(gots):          # first evaluation, re-evaluation, evaluation after an early close
        d = diff_lists(got, exp, ordered=False) if case[0] == "Q1" else diff_rows(got, exp, count=True)
        if d is not None:
            d = f"eval{which + 1}:{d}"
            break
    res = {"ok": d is None, "nontrivial": 0 < len(exp) < total, "transitions": 4 + (0 if is_exc(got) else 3 * len(got)),
           "tags": [f"family={case[0]}", f"root={root_kind(case[1])}"] + [f"decl={s}" for s in case[2:]],
           "outcome": f"{case[0]}:{len(exp)}"}
    if d is not None:
        res.update(sig=f"{case[0]}:{d}/root={root_kind(case[1])}/{'+'.join(case[2:])}",
                   obs=labels(got) if case[0] == "Q1" else row_labels(got),
                   exp=labels(exp) if case[0] == "Q1" else row_labels(exp))
    return res


def cases(tier, inst):
    yield from query_cases(tier)
    d = 5 if tier == "quick" else 6
    for h in histories(initial(), enabled, step, d):
        if h and (h[-1][0] in "EY") and any(o in DECL for o in h) == any(o[0] == "E" for o in h):
            yield h
    # histories in which an evaluation of a no-domain query is SUSPENDED after its first result (P<i>) and resumed to the
    # end later (M<i>), with constructions, registry clears and other evaluations in between
    for h in histories(r_initial(), r_enabled, r_step, 6 if tier == "quick" else 7):
        if h and h[-1][0] == "M":
            yield ("@resume",) + h
    # constructions that FAIL (the constructor raises): nothing was constructed, nothing may show up
    for h in histories(f_initial(), f_enabled, f_step, 4 if tier == "quick" else 5):
        if h and h[-1][0] == "E" and "KX" in h:
            yield ("@failed",) + h
    # a no-domain variable that several conditions mention (a conjunction, a disjunction, a negated disjunction)
    for h in histories(initial(), c_enabled, step, d + 1):
        if h and h[-1][0] == "E" and any(o in DECL2 for o in h) and sum(1 for o in h if o[0] == "E") >= 2:
            yield ("@conds",) + h
    # the same histories, two levels shallower, with the result cache DISABLED for the whole history (the registry of
    # instances is not a result cache: constructions must be registered all the same)
    for h in histories(initial(), enabled, step, d - 2):
        if h and h[-1][0] == "E" and any(o in KONS or o == "R" for o in h):
            yield ("@nocache",) + h


# ---------------------------------------------------------------- suspended evaluations (reference machine: pure)
R_KONS = ("KB", "KS")
R_DECL = ("DB", "DS")


def r_initial():
    return (0, ())        # number of declared queries (<= 2), for each: "idle" / "suspended"


def r_enabled(st):
    nq, states = st
    ops = list(R_KONS) + ["C"]
    if nq < 2:
        ops += list(R_DECL)
    for i, s_ in enumerate(states):
        ops += [f"E{i + 1}"] if s_ == "idle" else []
        ops += [f"P{i + 1}"] if s_ == "idle" else [f"M{i + 1}"]
    return ops


def r_step(st, op):
    nq, states = st
    if op in R_DECL:
        return (nq + 1, states + ("idle",))
    if op[0] in "PM":
        i = int(op[1]) - 1
        return (nq, states[:i] + (("suspended" if op[0] == "P" else "idle"),) + states[i + 1:])
    return st


def f_initial():
    return 0


def f_enabled(nq):
    return ["KH", "KX", "KR", "C"] + (["DH", "DHt"] if nq < 2 else []) + [f"E{i + 1}" for i in range(nq)]


def f_step(nq, op):
    return nq + (1 if op in ("DH", "DHt") else 0)


def run_failed(hist, inst):
    """KH = Hand(n); KR = Brittle(n) (succeeds); KX = Brittle(n, fail=True) raises ValueError"""
    def body():
        log, queries = [], []
        nth = trans = n_failed = 0
        for i, op in enumerate(hist):
            trans += 1
            try:
                if op == "KH":
                    nth += 1
                    log.append(W.Hand(nth, tag=f"H{nth}"))
                elif op == "KR":
                    nth += 1
                    log.append(W.Brittle(nth, tag=f"R{nth}"))
                elif op == "KX":
                    nth += 1
                    try:
                        W.Brittle(nth, fail=True)
                        return ("failing-construction-did-not-raise", i, op, "no exception", "ValueError", None), trans
                    except ValueError:
                        n_failed += 1
                elif op == "C":
                    clear_registry()
                    del log[:]
                    n_failed = 0
                elif op in ("DH", "DHt"):
                    v = let(W.Hand)
                    with symbolic_mode():
                        queries.append((op, (the if op == "DHt" else an)(entity(v))))
                else:
                    kind, q = queries[int(op[1]) - 1]
                    exp = sorted(repr(o) for o in log)
                    if kind == "DHt":
                        try:
                            got_objs = [q.evaluate()]
                            outcome = "value"
                        except NoSolutionFound:
                            got_objs, outcome = [], "NoSolution"
                        except MultipleSolutionFound:
                            got_objs, outcome = None, "Multiple"
                        exp_outcome = "NoSolution" if not log else ("value" if len(log) == 1 else "Multiple")
                        if outcome != exp_outcome or (got_objs and got_objs[0] is not log[0]):
                            # the alternative reading of the recorded finding: the failed constructions count as instances
                            n_alt = len(log) + n_failed
                            alt = "NoSolution" if not n_alt else ("value" if n_alt == 1 else "Multiple")
                            as_model = outcome == alt and not (got_objs and log and got_objs[0] is not log[0])
                            return ("the:" + outcome + "-instead-of-" + exp_outcome, i, op, outcome, exp_outcome, as_model), trans
                        continue
                    got_objs = list(q.evaluate())
                    got = sorted(repr(o) for o in got_objs)
                    if got != exp:
                        extra = [o for o in got_objs if not any(o is e for e in log)]
                        only_failed = (sorted(repr(o) for o in got_objs if any(o is e for e in log)) == exp
                                       and all(type(o) is W.Brittle and not hasattr(o, "k") for o in extra))
                        return ("an:" + ("extra" if extra else "missing"), i, op, got, exp, only_failed), trans
            except Exception as e:
                return ("step-raised", i, op, exc_obs(e), "no exception", None), trans
        return None, trans

    bad, trans = run_isolated(body)
    res = {"ok": bad is None, "nontrivial": True, "transitions": trans,
           "tags": [f"len={len(hist)}", "failed_construction"] + [f"op={o[0] if o[0] in 'DE' else o}" for o in set(hist)],
           "outcome": None}
    if bad is not None:
        kind, i, op, got, exp, only_failed = bad
        res.update(sig=f"failed-construction:{kind}", obs=(f"at step {i + 1} of {list(hist)}", got), exp=exp,
                   kf_hint={"extra_are_exactly_the_failed_constructions": only_failed})
    return res


def run_resume(hist, inst):
    def body():
        log, queries, its = [], [], {}
        nth = trans = 0
        for i, op in enumerate(hist):
            trans += 1
            try:
                if op in R_KONS:
                    nth += 1
                    o = KONS[op](nth)
                    log.append(o)
                    for st in its.values():
                        st["ever"].add(id(o))
                elif op == "C":
                    clear_registry()
                    del log[:]
                    for st in its.values():
                        st["cleared"] = True
                elif op in R_DECL:
                    cls = W.CLASSES[DECL[op]]
                    if op == "DB":
                        v = let(cls)
                        with symbolic_mode():
                            q = an(entity(v))
                    else:
                        with symbolic_mode():
                            q = an(entity(cls()))
                    queries.append((cls, q))
                elif op[0] == "E":
                    cls, q = queries[int(op[1]) - 1]
                    got = sorted(id(o) for o in q.evaluate())
                    exp = sorted(id(o) for o in log if isinstance(o, cls))
                    if got != exp:
                        return ("full-evaluation-while-another-is-suspended", i, op, len(got), len(exp)), trans
                elif op[0] == "P":
                    qi = int(op[1]) - 1
                    cls, q = queries[qi]
                    live = {id(o) for o in log if isinstance(o, cls)}
                    it = q.evaluate()
                    first = [o for o in [next(it, None)] if o is not None]
                    its[qi] = {"it": it, "first": first, "at_start": live, "ever": set(live), "cleared": False}
                elif op[0] == "M":
                    qi = int(op[1]) - 1
                    cls, q = queries[qi]
                    st = its.pop(qi)
                    try:
                        rest = list(st["it"])
                    except Exception as e:
                        return ("resume-raised", i, op, exc_obs(e), "the remaining instances"), trans
                    allgot = [id(o) for o in st["first"] + rest]
                    if len(set(allgot)) != len(allgot):
                        return ("resume-duplicate", i, op, len(allgot), len(set(allgot))), trans
                    if any(not isinstance(o, cls) for o in st["first"] + rest):
                        return ("resume-wrong-type", i, op, [type(o).__name__ for o in rest], cls.__name__), trans
                    if set(allgot) - st["ever"]:
                        return ("resume-never-live", i, op, len(set(allgot) - st["ever"]), 0), trans
                    if not st["cleared"] and st["at_start"] - set(allgot):
                        # what was live when the evaluation started and still is must be delivered, whatever was
                        # constructed in between (those may or may not be: `so far` can be read either way)
                        return ("resume-missing", i, op, len(st["at_start"] - set(allgot)), 0), trans
            except Exception as e:
                return ("step-raised", i, op, exc_obs(e), "no exception"), trans
        for st in its.values():
            st["it"].close()
        return None, trans

    bad, trans = run_isolated(body)
    between = any(o in R_KONS or o == "C" for o in hist)
    res = {"ok": bad is None, "nontrivial": between, "transitions": trans,
           "tags": [f"len={len(hist)}", "suspended_evaluation"] + [f"op={o[0] if o[0] in 'KDEPM' else o}" for o in set(hist)],
           "outcome": None}
    if bad is not None:
        kind, i, op, got, exp = bad
        res.update(sig=f"{kind}", obs=(f"at step {i + 1} of {list(hist)}", got), exp=exp)
    return res


def run_case(hist, inst):
    if hist and hist[0] in ("Q1", "Q2"):
        return run_query_case(hist, inst)
    if hist and hist[0] == "@resume":
        return run_resume(hist[1:], inst)
    if hist and hist[0] == "@failed":
        return run_failed(hist[1:], inst)
    caching = True
    if hist and hist[0] == "@nocache":
        caching, hist = False, hist[1:]
    if hist and hist[0] == "@conds":
        hist = hist[1:]

    def body():
        log = []
        queries = []      # (type name, query object, declared at step)
        trans = 0
        W.Hand.init_calls = 0
        init_expected = 0
        # a two-object domain for the inference rule (these Items are not of the queried types)
        src = [W.Item(p=1, tag="i1"), W.Item(p=2, tag="i2")]
        nth = 0
        flags = set()
        evaluated = set()
        constructed_since_decl = {}
        rule_heads = set()
        attr_selected = set()
        with symbolic_mode():
            the_probe = the(entity(let(W.Item, src)))
        for i, op in enumerate(hist):
            trans += 1
            try:
                if op in KONS:
                    nth += 1
                    o = KONS[op](nth)
                    log.append(o)
                    if op == "KH":
                        init_expected += 1
                    for qi in range(len(queries)):
                        constructed_since_decl[qi] = True
                elif op in SYMB:
                    before = registry_ids()
                    if op == "YB":
                        with symbolic_mode():
                            r = W.Base(k=1)
                    elif op == "YS":
                        with symbolic_mode():
                            r = W.Sub()
                    else:
                        with rule_mode():
                            r = W.Hand(k=1)
                    if not isinstance(r, SymbolicExpression):
                        return ("symbolic-construction-returned-instance", i, op, type(r).__name__, "expression"), trans, flags
                    if registry_ids() != before:
                        return ("symbolic-construction-registered", i, op, "registry changed", "unchanged"), trans, flags
                    if W.Hand.init_calls != init_expected:
                        return ("symbolic-construction-ran-init", i, op, W.Hand.init_calls, init_expected), trans, flags
                elif op == "R":
                    with rule_mode():
                        x = let(W.Item, src)
                        rq = infer(entity(W.Sub(k=x.p, tag="inferred"), x.p >= 1))
                    made = list(rq.evaluate())
                    if not all(isinstance(m, W.Sub) for m in made) or len(made) != 2:
                        return ("inference", i, op, [type(m).__name__ for m in made], "two Sub instances"), trans, flags
                    log.extend(made)
                    for qi in range(len(queries)):
                        constructed_since_decl[qi] = True
                elif op == "C":
                    clear_registry()
                    del log[:]
                elif op in DECL:
                    cls = W.CLASSES[DECL[op]]
                    if op == "DBc":                       # a condition that every instance satisfies
                        v = let(cls)
                        with symbolic_mode():
                            q = an(entity(v, v.k >= 0))
                    elif op == "DRa":
                        v = let(cls)
                        xs = let(W.Item, src)
                        with symbolic_mode():
                            q = an(entity(views := let(W.View), xs.p >= 1))
                        with rule_mode(q):
                            Add(views, W.Made(a=xs, b=v))
                        rule_heads.add(id(q))
                    elif op in DECL2:                     # conditions that every instance satisfies, all mentioning v
                        v = let(cls)
                        with symbolic_mode():
                            q = an(entity(v, {"DBcc": lambda: and_(v.k >= 0, v.v >= 0),
                                              "DBo": lambda: or_(v.k < 0, v.v >= 0),
                                              "DBn": lambda: not_(or_(v.k < 0, v.v < 0))}[op]()))
                    elif op == "DSk":                     # Sub(v=7): every Sub is constructed with the default v
                        with symbolic_mode():
                            q = an(entity(cls(v=7)))
                    elif op == "DHt":
                        v = let(cls)
                        with symbolic_mode():
                            q = the(entity(v))
                    elif op == "DHa":
                        v = let(cls)
                        with symbolic_mode():
                            q = an(entity(v.k))
                        attr_selected.add(id(q))
                    elif op == "DRh":
                        v = let(cls)
                        xs = let(W.Item, src)
                        with rule_mode():
                            q = infer(entity(W.Made(a=xs, b=v), xs.p >= 1))
                        rule_heads.add(id(q))
                    elif op in ("DB", "DH", "DD", "D0"):
                        v = let(cls)
                        with symbolic_mode():
                            q = an(entity(v))
                    else:
                        with symbolic_mode():
                            v = cls()
                            q = an(entity(v))
                    queries.append((DECL[op], q))
                elif op[0] == "E":
                    qi = int(op[1]) - 1
                    tname, q = queries[qi]
                    cls = W.CLASSES[tname]
                    exp = sorted(id(o) for o in log if isinstance(o, cls))
                    if constructed_since_decl.get(qi):
                        flags.add("constructed-between-declaration-and-evaluation" if qi not in evaluated
                                  else "constructed-after-first-evaluation")
                    if id(q) in attr_selected:
                        try:
                            vals = sorted(q.evaluate())
                        except Exception as e:
                            return ("evaluate-raised", i, op, exc_obs(e), "a list"), trans, flags
                        expv = sorted(o.k for o in log if isinstance(o, cls))
                        evaluated.add(qi)
                        if vals != expv:
                            when = "reevaluation" if hist[:i].count(op) > 0 else "first-evaluation"
                            return (f"selected-attribute:{when}", i, op, vals, expv), trans, flags
                        continue
                    if id(q) in rule_heads:
                        # one Made(a=x, b=h) per Item x of the two-object domain and live Hand h
                        try:
                            made = list(q.evaluate())
                        except Exception as e:
                            return ("evaluate-raised", i, op, exc_obs(e), "a list"), trans, flags
                        gotp = sorted((getattr(m.a, "tag", "?"), getattr(m.b, "tag", "?")) for m in made)
                        expp = sorted((x.tag, h.tag) for x in src for h in log if isinstance(h, cls))
                        evaluated.add(qi)
                        if gotp != expp:
                            kind = "missing" if set(expp) - set(gotp) else ("extra" if set(gotp) - set(expp) else "duplicate")
                            when = "reevaluation" if hist[:i].count(op) > 0 else "first-evaluation"
                            return (f"rule-head-{kind}:{when}", i, op, gotp, expp), trans, flags
                        continue
                    try:
                        if isinstance(q, type(the_probe)):
                            # `the`: the outcome class is decided by the number of live instances
                            try:
                                got_objs = [q.evaluate()]
                            except NoSolutionFound:
                                got_objs = []
                            except MultipleSolutionFound:
                                got_objs = [o for o in log if isinstance(o, cls)] if len(exp) >= 2 else ["Multiple"]
                            if len(exp) >= 2 and len(got_objs) == 1:
                                got_objs = ["no MultipleSolutionFound"]
                        else:
                            got_objs = list(q.evaluate())
                    except Exception as e:
                        return ("evaluate-raised", i, op, exc_obs(e), "a list"), trans, flags
                    got = sorted(id(o) for o in got_objs)
                    evaluated.add(qi)
                    if got != exp:
                        gl = sorted(repr(o) for o in got_objs)
                        el = sorted(repr(o) for o in log if isinstance(o, cls))
                        kind = "missing" if set(exp) - set(got) else ("extra" if set(got) - set(exp) else "duplicate")
                        when = "reevaluation" if (qi in evaluated and hist[:i].count(op) > 0) else "first-evaluation"
                        return (f"{kind}:{when}", i, op, gl, el), trans, flags
                    if W.Hand.init_calls != init_expected:
                        return ("evaluation-ran-init", i, op, W.Hand.init_calls, init_expected), trans, flags
            except Exception as e:
                return ("step-raised", i, op, exc_obs(e), "no exception"), trans, flags
        return None, trans, flags

    bad, trans, flags = run_isolated(body, caching=caching)
    res = {"ok": bad is None, "nontrivial": bool(flags), "transitions": trans,
           "tags": [f"len={len(hist)}"] + sorted(flags) + ([] if caching else ["caching_disabled"]) + [f"op={o[0] if o[0] in 'KYDE' else o}" for o in set(hist)],
           "outcome": None}
    if bad is not None:
        kind, i, op, got, exp = bad
        res.update(sig=f"{kind}" + ("" if caching else "/caching-disabled"), obs=(f"at step {i + 1} of {list(hist)}", got), exp=exp,
                   kf_hint={"kind": kind, "step": i})
    return res


# ---------------------------------------------------------------- known-finding hooks (see eqlmc/kf.py)
def _scope_failed_construction(case, inst):
    return bool(case) and case[0] == "@failed"


def _model_failed_construction_is_registered(case, inst, sig, obs, hint):
    return sig.startswith("failed-construction:") and bool(hint) and hint.get("extra_are_exactly_the_failed_constructions") is True


KF_SCOPES = {"history_with_a_failed_construction": _scope_failed_construction}
KF_MODELS = {"failed_construction_is_registered": _model_failed_construction_is_registered}


def registry_ids():
    from entity_query_language.symbolic import Variable
    out = []
    try:
        for t, c in Variable._cache_.items():
            out.append((getattr(t, "__name__", str(t)), sorted(v.id_ for v in c.flat_cache)))
    except Exception:
        return None
    return sorted(out)


LEGEND = ("KB=Base(n, 7) KS=Sub(k=n) KU=USub(n, w=3) KL=Leaf(n) [class Leaf(Sub)] KH=Hand(n) KO=Other(p=n) KD=Dflt() K0=Hand0()  [concrete constructions, "
          "n = running number]; "
          "YB=`with symbolic_mode(): Base(k=1)` YS=`with symbolic_mode(): Sub()` YH=`with rule_mode(): Hand(k=1)`; "
          "R=list(infer(entity(Sub(k=x.p), x.p >= 1)).evaluate()) over two Items; C=clear the registry (as test/conftest.py); "
          "DB=declare q=an(entity(let(Base))) DH=let(Hand) DD=let(Dflt) D0=let(Hand0) DS=`with symbolic_mode(): "
          "an(entity(Sub()))` DU=USub() DBc=an(entity(v := let(Base), v.k >= 0)) DSk=an(entity(Sub(v=7))); "
          "E<i>=list(q<i>.evaluate())")


def describe(hist, inst):
    if hist and hist[0] in ("Q1", "Q2"):
        if hist[0] == "Q1":
            q = ("Q", "an", "entity", X, (hist[1],), (("x", hist[2], "Item", "D"),))
            return (Q.up_world(GRID, inst) + "\n# nothing else has been constructed: the registry of Item is exactly D's objects\n"
                    + Q.up_query(q, inst) + "\nresult = list(q.evaluate())   # expected: every Item satisfying the condition, each once; the same when "
                    "evaluated again, and again after `it = q.evaluate(); next(it); it.close()`")
        q = ("Q", "an", "setof", (X, Y), (hist[1],), (("x", hist[2], "Item", "DA"), ("y", hist[3], "Other", "DO")))
        return (Q.up_world(TWO, inst) + "\n# nothing else has been constructed: the registries are exactly DA (Item) and DO (Other)\n"
                + Q.up_query(q, inst) + "\nrows = list(q.evaluate())   # expected: every satisfying (x, y) pair, each once; the same when evaluated "
                "again, and again after `it = q.evaluate(); next(it); it.close()`")
    if hist and hist[0] == "@failed":
        return (f"history: {' ; '.join(hist[1:])}\n# KH=Hand(n) KR=Brittle(n) [class Brittle(Hand), undecorated] KX=`try: Brittle(n, fail=True)` "
                "[its __init__ raises ValueError before initialising anything] C=clear the registry DH=declare q=an(entity(let(Hand))) "
                "DHt=the(entity(let(Hand))) E<i>=evaluate q<i>\n"
                "# expected at E<i>: exactly the Hand instances whose construction succeeded")
    if hist and hist[0] == "@resume":
        return (f"history: {' ; '.join(hist[1:])}\n# KB=Base(n, 7) KS=Sub(k=n) C=clear the registry DB=declare q=an(entity(let(Base))) "
                "DS=`with symbolic_mode(): an(entity(Sub()))` E<i>=list(q<i>.evaluate()) P<i>=it<i> = q<i>.evaluate(); next(it<i>, None) "
                "M<i>=list(it<i>)   [the suspended evaluation is resumed to its end]\n"
                "# expected at M<i>: no exception; first + rest without repetition, all of the type, all live at some time since "
                "P<i>; everything that was live at P<i> (unless the registry was cleared in between)")
    pre = ""
    if hist and hist[0] == "@conds":
        pre, hist = ("# DBcc=an(entity(v := let(Base), and_(v.k >= 0, v.v >= 0))) DBo=... or_(v.k < 0, v.v >= 0) "
                     "DBn=... not_(or_(v.k < 0, v.v < 0)) DRa=q = an(entity(views := let(View), xs.p >= 1)); with rule_mode(q): "
                     "Add(views, Made(a=xs, b=let(Hand)))  [xs over two Items]\n"), hist[1:]
    if hist and hist[0] == "@nocache":
        pre, hist = "disable_caching()   # for the whole history\n", hist[1:]
    return (pre + f"history: {' ; '.join(hist)}\n# {LEGEND}\n# expected at every E<i>: exactly the instances of the type "
            "(subclasses included) constructed concretely since the last clear, each once, by identity")
