"""C17 - concatenate yields a single value: all inner elements, in order.

Enumerated: parent domains of 0..3 parents whose inner collections range over all tuples of length <=2 (thorough <=3 for
<=2 parents) over a pool of 3 element objects, plus scalar inner values; observed: the single concatenated value, and
membership of an outer variable (over the pool plus one absent object) tested with in_, contains and their negations.
Oracle: [[x for p in parents for x in as_list(p.items)]] (order and multiplicity) and Python `in`.
"""
from __future__ import annotations

import itertools

from .. import qast as Q
from ..common import X, A, L, V, diff_lists, labels, is_exc, exc_obs
from ..isolate import run_isolated
from ..worlds import build_world

ID = "C17"
ENGINE = "eqlmc-E1"
RULE = ("cases = (inner collections of the parents, observation kind, caching), all combinations; non-trivial = the "
        "combined list is non-empty and (for membership) some but not all outer values qualify"
        ' Wave 7: the parent variable bound before the concatenation (condition written first, parent selected first): every evaluation must follow ONE of the three readings of the statement (all parents / qualifying parents / the bound parent).')
ASSUMPTIONS = ["elements are objects compared by identity"]

M = V("m")
CC = ("cc", A(X, "items"))
KINDS = {
    "value": None,
    "in": ("in", M, CC),
    "has": ("has", CC, M),
    "not_in": ("not", ("in", M, CC)),
    "not_has": ("not", ("has", CC, M)),
    "inv_in": ("inv", ("in", M, CC)),
}


def inner_values(max_len, scalars=True):
    out = []
    for n in range(0, max_len + 1):
        out += list(itertools.product((0, 1, 2), repeat=n))
    if scalars:
        out += [0, 2]          # a scalar (non-iterable) inner value: the element itself
    return out


def bounds(tier):
    return {"parents": "0..3", "inner_len": 2 if tier == "quick" else 3, "pool": 3, "observations": list(KINDS)}


def worlds(tier):
    yield ()
    inn2 = inner_values(2)
    for n in (1, 2):
        yield from itertools.product(inn2, repeat=n)
    if tier == "quick":
        small = [(), (0,), (0, 0), (1, 2), 2]
        yield from itertools.product(small, repeat=3)
    else:
        yield from itertools.product(inner_values(2, scalars=False) + [2], repeat=3)
        inn3 = [v for v in inner_values(3) if isinstance(v, tuple) and len(v) == 3]
        yield from itertools.product(inn3, inner_values(3))


INT_INNER = [(), (0,), (0, 1), (2, 2), (1, 0), 0, 2, 1]      # plain values as elements, falsy ones and scalars included
# a STRING is a single element (a non-iterable value counts as one element, and so does text): scalars "ab" / "" / "x" and a
# collection of strings
STR_INNER = ["ab", "", ("ab", "c"), (), "x", ("",)]
IKINDS = {
    "ivalue": None,
    "ivalue_setof": None,          # the concatenated value selected through set_of([...]) instead of entity(...)
    "iin_sel": ("in", A(M, "p"), CC),   # ... and selected alongside the outer variable
    "iin": ("in", A(M, "p"), CC),
    "ihas": ("has", CC, A(M, "p")),
    "inot_in": ("not", ("in", A(M, "p"), CC)),
    # two concatenations (over two attributes of the same parent variable) in one condition
    "iin_both": ("and", ("in", A(M, "p"), CC), ("in", A(M, "p"), ("cc", A(X, "t")))),
    "iin_either": ("or", ("in", A(M, "p"), ("cc", A(X, "t"))), ("not", ("in", A(M, "p"), CC))),
    # the parent variable selected next to the outer one: it is not restricted by the concatenation
    "iin_selx": ("in", A(M, "p"), CC),
    # the concatenation inside the condition of a for_all: every value of the universal is in the ONE combined list
    "ifa": ("and", ("fa", ("v", "u"), ("in", A(("v", "u"), "p"), CC)), ("cmp", "ge", A(M, "p"), L(0))),
    "ifa_not": ("and", ("fa", ("v", "u"), ("not", ("in", A(("v", "u"), "p"), CC))), ("cmp", "ge", A(M, "p"), L(0))),
}
VU = ("u", "let", "Item", "EU")


def cases(tier, inst):
    # plain (integer) elements: the value 0 is an element like any other, also as a scalar inner value
    for n in (1, 2, 3):
        for combo in itertools.product(INT_INNER, repeat=n):
            if n == 3 and tier == "quick" and hash(combo) % 4:
                continue
            for k in IKINDS:
                yield (("int",) + combo, k, True)
    for n in (1, 2, 3):
        for combo in itertools.product(STR_INNER, repeat=n):
            if n == 3 and (tier == "quick" and hash(combo) % 4):
                continue
            for k in ("ivalue", "iin", "inot_in", "ivalue_setof"):
                yield (("str",) + combo, k, True)
    # the concatenated expression sits on a CONSTRAINED parent (a predicate-form term with a field constraint, a
    # sub-query with a condition): only the parents that satisfy the constraint contribute
    for pk in PARENT_KINDS:
        for n in (1, 2, 3):
            for combo in itertools.product(INT_INNER[:6], repeat=n):
                if n == 3 and (tier == "quick" and hash(combo) % 3):
                    continue
                for k in ("ivalue", "iin", "inot_in", "ivalue_setof"):
                    yield (("intc", pk) + combo, k, True)
    # the parent variable is bound BEFORE the concatenation is evaluated (a condition on it written first, or the parent
    # selected before the concatenation): the statement does not say whether the value is then the combined list of all
    # parents, of the parents that satisfy the condition, or of the bound parent alone - but it is one of these, the same
    # reading in every row
    for n in (2, 3):
        for combo in itertools.product(INT_INNER[:7], repeat=n):
            if n == 3 and (tier == "quick" and hash(combo) % 3):
                continue
            for k in BKINDS:
                yield (("int",) + combo, k, True)
    # LIST-valued inner collections (the user's own mutable lists): the concatenated value is a NEW list, evaluated twice,
    # then once more through a second query over the same objects; the users' lists are what they were
    for n in (1, 2, 3):
        for combo in itertools.product([c for c in INT_INNER[:6] if isinstance(c, tuple)] + [2], repeat=n):
            yield (("lst",) + combo, "lvalue", True)
            # wave 9 (C17-agent9): the same with inner collections that are iterable and nothing else (no list / tuple / set)
            yield (("itr",) + combo, "lvalue", True)
    yield from object_cases(tier, inst)


XC = ("cmp", "ne", A(X, "p"), L(2))
BKINDS = {"bsel": ("setof", (X, CC), (XC,)), "bsel_nocond": ("setof", (X, CC), ()),
          "bin": ("setof", (X, M), (XC, ("in", A(M, "p"), CC))),
          "bnotin": ("setof", (X, M), (XC, ("not", ("in", A(M, "p"), CC))))}
PARENT_KINDS = {
    "pform": ("bound", "x", ("pform", "Item", "P", (), (("q", L(1)),))),
    "subq": ("sub", ("Q", "an", "entity", X, (("cmp", "eq", A(X, "q"), L(1)),), ())),
    "subq_attr": ("sub", ("Q", "an", "entity", X, (("cmp", "ne", A(X, "q"), L(2)),), ())),
}


def cc_of(combo):
    if combo and combo[0] == "intc":
        return ("cc", A(PARENT_KINDS[combo[1]], "items"))
    return CC


def object_cases(tier, inst):
    seen = set()
    for combo in worlds(tier):
        if combo in seen:
            continue
        seen.add(combo)
        for k in KINDS:
            for caching in (True, False):
                if k == "inv_in" and not caching:
                    continue
                yield (combo, k, caching)


def wspec_of(combo):
    if combo and combo[0] == "int":
        # a second collection per parent (attribute t): the inner values shifted by one parent
        inn = combo[1:]
        rows = tuple((("p", i + 1), ("items", inner), ("t", inn[(i + 1) % len(inn)])) for i, inner in enumerate(inn))
        return (("E", "Item", tuple((("p", i),) for i in range(4))), ("EU", "Item", ((("p", 0),), (("p", 2),))), ("P", "Item", rows))
    if combo and combo[0] == "str":
        rows = tuple((("p", i + 1), ("items", inner)) for i, inner in enumerate(combo[1:]))
        return (("E", "Item", tuple((("p", v),) for v in ("ab", "a", "", "c"))), ("P", "Item", rows))
    if combo and combo[0] == "intc":
        # the first parent fails the constraint (q == 2), the others alternate
        rows = tuple((("p", i + 1), ("q", 2 if i % 2 == 0 else 1), ("items", inner)) for i, inner in enumerate(combo[2:]))
        return (("E", "Item", tuple((("p", i), ("q", 3)) for i in range(4))), ("P", "Item", rows))
    ref = lambda i: ("@", "E", i)      # noqa: E731
    rows = tuple((("p", i + 1), ("items", tuple(ref(j) for j in inner) if isinstance(inner, tuple) else ref(inner)))
                 for i, inner in enumerate(combo))
    return (("E", "Item", tuple((("p", i + 1),) for i in range(4))), ("P", "Item", rows))


VX = ("x", "let", "Item", "P")
VM = ("m", "let", "Item", "E")


def query_of(case):
    combo, k, caching = case
    if combo and combo[0] == "intc":
        cc = cc_of(combo)
        vx = () if combo[1] == "pform" else (VX,)
        cond = {"iin": ("in", A(M, "p"), cc), "inot_in": ("not", ("in", A(M, "p"), cc))}.get(k)
        if k == "ivalue":
            return ("Q", "an", "entity", cc, (), vx)
        if k == "ivalue_setof":
            return ("Q", "an", "setof", (cc,), (), vx)
        return ("Q", "an", "entity", M, (cond,), (VM,) + vx)
    if k in BKINDS:
        kind, sel, conds = BKINDS[k]
        return ("Q", "an", kind, sel, conds, (VX, VM) if k in ("bin", "bnotin") else (VX,))
    if k == "ivalue":
        return ("Q", "an", "entity", CC, (), (VX,))
    if k == "ivalue_setof":
        return ("Q", "an", "setof", (CC,), (), (VX,))
    if k == "iin_sel":
        return ("Q", "an", "setof", (M, CC), (IKINDS[k],), (VM, VX))
    if k == "iin_selx":
        return ("Q", "an", "setof", (M, X), (IKINDS[k],), (VM, VX))
    if k in IKINDS:
        return ("Q", "an", "entity", M, (IKINDS[k],), (VM, VX))
    if k == "value":
        return ("Q", "an", "entity", CC, (), (VX,))
    return ("Q", "an", "entity", M, (KINDS[k],), (VM, VX))


def run_bound(case, inst):
    combo, k, caching = case
    q = query_of(case)

    def body():
        world = build_world(wspec_of(combo), inst)
        as_list = lambda p: list(p.items) if isinstance(p.items, tuple) else [p.items]      # noqa: E731
        parents = [p for p in world["P"] if k == "bsel_nocond" or p.p != inst.v(2)]
        readings = {"all-parents": lambda p: [e for o in world["P"] for e in as_list(o)],
                    "qualifying-parents": lambda p: [e for o in parents for e in as_list(o)],
                    "bound-parent": as_list}
        exps = {}
        for name, value_for in readings.items():
            if k.startswith("bsel"):
                exps[name] = sorted((world["P"].index(p), repr(value_for(p))) for p in parents)
            else:
                exps[name] = sorted((world["P"].index(p), world["E"].index(m)) for p in parents for m in world["E"]
                                    if (m.p in value_for(p)) != (k == "bnotin"))
        try:
            obj, b = Q.build(q, world, inst)
            sx, s2 = b.sel[q]
            outs = []
            for _ in range(2):
                rows = list(obj.evaluate())
                if k.startswith("bsel"):
                    outs.append(sorted((world["P"].index(r[sx]), repr(list(r[s2]))) for r in rows))
                else:
                    outs.append(sorted((world["P"].index(r[sx]), world["E"].index(r[s2])) for r in rows))
        except Exception as e:
            return exc_obs(e), exps
        return outs, exps

    outs, exps = run_isolated(body, caching=caching)
    distinct = len({repr(v) for v in exps.values()})
    res = {"ok": True, "transitions": 2, "nontrivial": distinct > 1,
           "tags": [f"kind={k}", f"parents={len(combo) - 1}", "caching=on", f"readings_distinguished={distinct}"],
           "outcome": f"{k}:{distinct}"}
    if is_exc(outs):
        res.update(ok=False, sig=f"{k}:exc:{outs[1]}", obs=outs, exp=exps)
        return res
    which = [[name for name, e in exps.items() if e == got] for got in outs]
    if not which[0] or not which[1]:
        res.update(ok=False, sig=f"{k}:no-reading-of-the-statement-gives-this/eval{1 if not which[0] else 2}",
                   obs=outs[0 if not which[0] else 1], exp=exps)
    elif not set(which[0]) & set(which[1]):
        res.update(ok=False, sig=f"{k}:the-reading-changes-between-evaluations", obs=outs, exp=exps)
    return res


def run_list(case, inst):
    combo, k, caching = case
    inner = combo[1:]

    def body():
        wspec = (("P", "Item", tuple((("p", i + 1), ("items", (("list!",) if combo[0] == "lst" else ("iter!",)) + c if isinstance(c, tuple) else c))
                                     for i, c in enumerate(inner))),)
        world = build_world(wspec, inst)
        from ..worlds import IterOnly
        before = [(o.items, list(o.items)) if isinstance(o.items, (list, IterOnly)) else (o.items, None) for o in world["P"]]
        combined = [e for o in world["P"] for e in (o.items if isinstance(o.items, (list, IterOnly)) else [o.items])]
        q = ("Q", "an", "entity", CC, (), (VX,))
        out = []
        try:
            obj, b = Q.build(q, world, inst)
            out.append([list(v) for v in obj.evaluate()])
            out.append([list(v) for v in obj.evaluate()])
            obj2, b2 = Q.build(q, world, inst)           # a second query over the same objects
            out.append([list(v) for v in obj2.evaluate()])
        except Exception as e:
            return exc_obs(e), combined, None
        changed = [i for i, (o, (ref, content)) in enumerate(zip(world["P"], before))
                   if o.items is not ref or (content is not None and list(o.items) != content)]
        return out, combined, changed

    out, combined, changed = run_isolated(body, caching=caching)
    res = {"ok": True, "transitions": 3, "nontrivial": len(combined) > 0,
           "tags": ["kind=lvalue", f"parents={len(inner)}", "caching=on", "list_valued"], "outcome": f"lvalue:{len(combined)}"}
    if is_exc(out):
        res.update(ok=False, sig=f"lvalue:exc:{out[1]}", obs=out, exp=[combined])
    else:
        for name, o in zip(("eval1", "eval2", "second-query"), out):
            if o != [combined]:
                res.update(ok=False, sig=f"lvalue:{name}:" + ("rows" if len(o) != 1 else "content"), obs=repr(o), exp=repr([combined]))
                return res
        if changed:
            res.update(ok=False, sig="lvalue:the-user's-list-was-changed", obs=f"items of parents {changed} changed", exp="unchanged")
    return res


def run_case(case, inst):
    combo, k, caching = case
    if k == "lvalue":
        return run_list(case, inst)
    if k in BKINDS:
        return run_bound(case, inst)
    q = query_of(case)

    def body():
        world = build_world(wspec_of(combo), inst)
        combined = []
        for p in world["P"]:
            if combo and combo[0] == "intc" and p.q != inst.v(1):
                continue
            combined.extend(p.items if isinstance(p.items, tuple) else [p.items])
        try:
            obj, b = Q.build(q, world, inst, predeclare=(VU,) if k in ("ifa", "ifa_not") else ())
            got = list(obj.evaluate())
            if k == "ivalue_setof":
                got = [r[b.sel[q][0]] for r in got]
            elif k == "iin_selx":
                got = [(r[b.sel[q][0]], r[b.sel[q][1]]) for r in got]
            elif k == "iin_sel":
                if any(list(r[b.sel[q][1]]) != combined for r in got):
                    got = ("EXC", "WrongConcatenatedValue", repr([r[b.sel[q][1]] for r in got])[:120])
                else:
                    got = [r[b.sel[q][0]] for r in got]
        except Exception as e:
            got = exc_obs(e)
        if k in ("value", "ivalue", "ivalue_setof"):
            return got, combined, None
        neg = "not" in k or k.startswith("inv")
        if k in ("ifa", "ifa_not"):
            holds = all((u.p in combined) != (k == "ifa_not") for u in world["EU"])
            return got, (list(world["E"]) if holds else []), len(world["E"]) + 1
        if k in ("iin_both", "iin_either", "iin_selx"):
            combined_t = []
            for p in world["P"]:
                combined_t.extend(p.t if isinstance(p.t, tuple) else [p.t])
            if k == "iin_both":
                exp = [o for o in world["E"] if o.p in combined and o.p in combined_t]
            elif k == "iin_either":
                exp = [o for o in world["E"] if o.p in combined_t or o.p not in combined]
            else:
                exp = [(o, p) for o in world["E"] if o.p in combined for p in world["P"]]
                if not is_exc(got):
                    bad = [r for r in got if not any(r[1] is p for p in world["P"])]
                    if bad:
                        got = ("EXC", "ParentNotAnObject", type(bad[0][1]).__name__)
                    else:
                        # compared as lists of labels below: order by outer then parent
                        key = lambda r: (world["E"].index(r[0]), world["P"].index(r[1]))     # noqa: E731
                        got = [f"{world['E'].index(a)}/{world['P'].index(b)}" for a, b in sorted(got, key=key)]
                exp = [f"{world['E'].index(a)}/{world['P'].index(b)}" for a, b in exp]
                return got, exp, len(world["E"]) * max(1, len(world["P"]))
        elif k in IKINDS:
            exp = [o for o in world["E"] if (o.p in combined) != neg]
        else:
            exp = [o for o in world["E"] if (any(o is c for c in combined)) != neg]
        return got, exp, len(world["E"])

    got, exp, total = run_isolated(body, caching=caching)
    res = {"ok": True, "transitions": 1, "tags": [f"kind={k}", f"parents={len(combo)}", f"caching={'on' if caching else 'off'}"]
           + (["all_empty"] if combo and all(i == () for i in combo) else []) + (["no_parent"] if not combo else []),
           "outcome": f"{k}:{len(exp)}"}
    if k in ("ivalue", "ivalue_setof"):
        res["nontrivial"] = len(exp) > 0
        if is_exc(got):
            res.update(ok=False, sig=f"ivalue:exc:{got[1]}", obs=got, exp=[repr(exp)])
        elif len(got) != 1 or list(got[0]) != exp:
            res.update(ok=False, sig="ivalue:" + ("rows" if len(got) != 1 else "content"), obs=repr(got), exp=repr([exp]))
    elif k == "value":
        res["nontrivial"] = len(exp) > 0
        if is_exc(got):
            res.update(ok=False, sig=f"value:exc:{got[1]}" + ("/no_parent" if not combo else ""), obs=got, exp=[labels(exp)])
        elif len(got) != 1:
            res.update(ok=False, sig=f"value:rows={len(got)}", obs=[labels(list(g)) if hasattr(g, '__iter__') else repr(g) for g in got],
                       exp=[labels(exp)])
        else:
            val = got[0]
            try:
                d = diff_lists(list(val), exp, ordered=True)
            except TypeError:
                d = "not-a-list"
            if d is not None:
                res.update(ok=False, sig=f"value:{d}", obs=[labels(list(val))] if d != "not-a-list" else repr(val),
                           exp=[labels(exp)])
    elif k == "iin_selx":
        res["nontrivial"] = 0 < len(exp) < total
        if got != exp:
            d = f"exc:{got[1]}" if is_exc(got) else ("missing" if set(exp) - set(got) else ("extra" if set(got) - set(exp) else "count"))
            res.update(ok=False, sig=f"{k}:{d}", obs=got, exp=exp)
    else:
        res["nontrivial"] = 0 < len(exp) < total
        d = diff_lists(got, exp, ordered=True)
        if d is not None:
            res.update(ok=False, sig=f"{k}:{d}" + ("/no_parent" if not combo else ""), obs=labels(got), exp=labels(exp))
    return res


def describe(case, inst):
    combo, k, caching = case
    if k == "lvalue":
        return ("P = [" + ", ".join(f"Item(p={i + 1}, items={list(c) if isinstance(c, tuple) else c})" for i, c in enumerate(combo[1:])) + "]"
                "   # LIST-valued inner collections\nwith symbolic_mode(): x = let(Item, P); q = an(entity(concatenate(x.items)))\n"
                "v1 = list(q.evaluate()); v2 = list(q.evaluate()); v3 = list(<the same query written again>.evaluate())\n"
                "# expected: three times [[all elements in order]]; the items lists of the objects are what they were")
    return (("enable_caching()" if caching else "disable_caching()") + "\n" + Q.up_world(wspec_of(combo), inst) + "\n"
            + Q.up_query(query_of(case), inst)
            + "\nresult = list(q.evaluate())   # expected: " +
            ("[[el for p in P for el in as_list(p.items)]]" if k == "value" else "[o for o in E if (o in combined) is <polarity>]"))
