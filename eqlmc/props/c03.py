"""C03 - negation returns the exact complement, at any nesting depth.

Enumerated: every tree c of the single-variable and the two-variable vocabularies up to the tier's depth, trees that
already contain negations at any depth included; for each c three freshly built queries c, not_(c), not_(not_(c))
(fresh builds because negation rewrites/mutates its operand), in both surface forms (not_ / ~).
Oracle: rows(not c) == product - rows(c); rows(not not c) == rows(c); each equals the Python oracle.  Row sets are
compared (duplicates are C02's business).
"""
from __future__ import annotations

from .. import qast as Q
from ..common import (X, Y, Z, A, L, leaves_single, leaves_xy, REPRESENTATIVE_4, REPRESENTATIVE_8, XY_REP, rich_world, VARS3, VARS_SELF,
                      grid_world, eval_rows, diff_rows, row_labels, is_exc, root_kind, to_fn_form)
from ..isolate import run_isolated
from ..space import trees_by_depth
from ..worlds import build_world

ID = "C03"
ENGINE = "eqlmc-E1"
RULE = ("cases = (variable set, condition tree c, surface form); for each, c / not c / not not c are built afresh and "
        "evaluated; all trees of depth<=d (negations at any depth included); non-trivial = rows(c) neither empty nor "
        "the full product"
        ' Wave 7: a negated leaf written once and used in several places (shared / per occurrence); for_all conditions alone and as operands, negated.')
ASSUMPTIONS = ["attribute values non-falsy (falsy values: C19)", "row sets compared, not multiplicities"]

GRID = grid_world("D")
RICH = rich_world()
VARS1 = (("x", "let", "Item", "D"),)


def bounds(tier):
    return {"single_var": {"depth1_leaves": len(leaves_single()), "depth2_leaves": 4 if tier == "quick" else 8},
            "two_var": {"depth1_leaves": len(leaves_xy()), "depth2_leaves": 4},
            "depth3_leaf_pairs": 0 if tier == "quick" else 2}


def cases(tier, inst):
    thorough = tier == "thorough"
    for t in trees_by_depth(leaves_single(), 1):
        yield ("x", t, "op")
        yield ("x", to_fn_form(t), "fn")
    for t in trees_by_depth(leaves_xy(), 1):
        yield ("xy", t, "op")
    for t in trees_by_depth(REPRESENTATIVE_8 if thorough else REPRESENTATIVE_4, 2):
        if Q.depth(t) == 2:
            yield ("x", t, "op")
    for t in trees_by_depth(XY_REP, 2):
        if Q.depth(t) == 2:
            yield ("xy", t, "op")
            if thorough:
                yield ("xy", to_fn_form(t), "fn")
    # two variables over ONE domain compared with each other directly (identity), and a variable compared with an object
    # of its domain used as a constant: the comparisons in which both operands can be bound to the same object
    for t in trees_by_depth(SELF_LEAVES, 1):
        yield ("self", t, "op")
        yield ("self", to_fn_form(t), "fn")
    for t in trees_by_depth(SELF_LEAVES[:4] if thorough else SELF_LEAVES[:3], 2):
        if Q.depth(t) == 2:
            yield ("self", t, "op")
    # three variables, every leaf over ONE of them (and one join leaf): De Morgan of a negated tree turns into
    # conjunctions of disjunctions over different variable sets
    for t in trees_by_depth(XYZ_LEAVES, 2):
        if Q.depth(t) >= 1 and (thorough or Q.depth(t) == 1 or hash(t) % 3 == 0):
            yield ("xyz", t, "op")
    # values that are only PARTIALLY ordered (sets under <, <=) or unordered (NaN): not_(a < b) is `not a < b`, which is
    # not `a >= b` there
    for t in trees_by_depth(PO_LEAVES, 1):
        yield ("po", t, "op")
    for t in trees_by_depth(PO_LEAVES[:4], 2):
        if Q.depth(t) == 2 and (thorough or hash(t) % 3 == 0):
            yield ("po", t, "op")
    # a NEGATED leaf written once (s = not_(x.flag), s = not_(x.p < 2), s = not_(x.p == y.p)) and used in several places
    # of a condition: it is the complement of the leaf in every one of them. Evaluated with the object shared, with one
    # object per occurrence, and with the second occurrence written as the double negation of the shared one's operand
    for vk, reps in (("xs", REPRESENTATIVE_8 if thorough else REPRESENTATIVE_4), ("xys", XY_REP if thorough else XY_REP[:4])):
        for a0 in reps:
            a = ("not", a0)
            for b in reps:
                if b == a0:
                    continue
                for t in (("or", a, ("and", a, b)), ("and", ("or", a, b), a), ("or", b, ("and", a, a)),
                          ("and", a, ("or", b, a)), ("or", ("and", a, b), a), ("and", a, a), ("or", a, a),
                          ("and", ("or", a, b), ("or", a, ("not", b))), ("or", ("and", a, b), ("and", a, ("not", b)))):
                    yield (vk, t, "op")
    # universal conditions (for_all over a variable of its own, over the un-nested elements of y.t) as the condition, and
    # as an operand of a conjunction / disjunction: their negation is the complement like any other
    from .c18 import FA_LEAVES
    for f in FA_LEAVES:
        yield ("fa", f, "op")
        yield ("fa", f, "fn")
        for a in (XY_REP if thorough else XY_REP[:2]):
            for t in (("and", f, a), ("or", f, a), ("or", a, f), ("and", a, ("not", f))):
                yield ("fa", t, "op")
    if thorough:
        for pair in ((REPRESENTATIVE_8[0], REPRESENTATIVE_8[2]), (XY_REP[0], XY_REP[3])):
            vk = "xy" if pair[0] in XY_REP else "x"
            for t in trees_by_depth(list(pair), 3):
                if Q.depth(t) == 3:
                    yield (vk, t, "op")


XYZ_LEAVES = [("cmp", "le", A(Z, "p"), L(1)), ("cmp", "ne", A(X, "p"), L(1)), ("cmp", "ne", A(Y, "q"), L(1)),
              ("cmp", "eq", A(X, "p"), A(Y, "p"))]
SELF_LEAVES = [("cmp", "eq", X, Y), ("cmp", "ne", X, Y), ("cmp", "eq", X, ("ob", "DA", 1)), ("cmp", "ne", ("ob", "DA", 2), Y),
               ("cmp", "lt", A(X, "p"), A(Y, "p")), ("cmp", "eq", A(X, "q"), A(Y, "q"))]


_fs = lambda *e: ("fset!",) + e      # noqa: E731
PO_ROWS = ((("t", _fs()), ("p", 1)), (("t", _fs(1)), ("p", "nan!")), (("t", _fs(2)), ("p", 2)), (("t", _fs(1, 2)), ("p", 1)),
           (("t", _fs(1)), ("p", 3)))
PO_WORLD = (("DA", "Item", PO_ROWS),)
PO_LEAVES = [("cmp", op, A(X, "t"), A(Y, "t")) for op in ("lt", "le", "gt", "ge")] + \
            [("cmp", "lt", A(X, "t"), ("lfs", 1, 2)), ("cmp", "ge", ("lfs", 1), A(Y, "t")),
             ("cmp", "lt", A(X, "p"), A(Y, "p")), ("cmp", "ge", A(X, "p"), L(2)), ("cmp", "le", L(1), A(Y, "p")),
             ("cmp", "eq", A(X, "p"), A(Y, "p")), ("cmp", "ne", A(X, "t"), A(Y, "t"))]


def queries_of(case):
    vk, t, form = case
    neg = "inv" if form == "fn" else "not"
    if vk in ("x", "xs"):
        vars_, sel = VARS1, (X,)
    elif vk in ("self", "po"):
        vars_, sel = VARS_SELF, (X, Y)
    elif vk == "xyz":
        vars_, sel = VARS3, (X, Y, Z)
    elif vk == "fa":
        vars_, sel = VARS3[:2], (X, Y)        # z is the universal variable: declared, not a row variable
    else:
        vars_, sel = VARS3[:2], (X, Y)
    mk = lambda c: ("Q", "an", "setof", sel, (c,), vars_)     # noqa: E731
    return mk(t), mk((neg, t)), mk((neg, (neg, t)))


def run_shared(case, inst):
    """the `xs` / `xys` families: one query, its negated leaves shared (one object) / written per occurrence"""
    q = queries_of(case)[0]
    wspec = GRID if case[0] == "xs" else RICH

    def body():
        out = []
        for share in ("neg", False):
            world = build_world(wspec, inst)
            got = eval_rows(q, world, inst, share_conds=share)
            ref = Q.Ref(world, inst)
            exp = [tuple(env[s[1]] for s in q[3]) for env in ref.solutions(q)]
            total = 1
            for v in q[5]:
                total *= len(ref.domain(v))
            out.append((got, exp, total))
        return out

    out = run_isolated(body)
    res = {"ok": True, "nontrivial": 0 < len(out[0][1]) < out[0][2], "transitions": 2,
           "tags": [f"vars={case[0]}", f"root={root_kind(case[1])}", "form=shared-negated-leaf", "inner_not"],
           "outcome": f"{len(out[0][1])}/{out[0][2]}"}
    for name, (got, exp, total) in zip(("shared", "per-occurrence"), out):
        d = diff_rows(got, exp, count=False)
        if d is not None:
            res.update(ok=False, sig=f"{name}:{d}/root={root_kind(case[1])}", obs=(name, row_labels(got)),
                       exp=(name, row_labels(exp)))
            return res
    return res


def run_case(case, inst):
    if case[0] in ("xs", "xys"):
        return run_shared(case, inst)
    qc, qn, qnn = queries_of(case)
    wspec = GRID if case[0] == "x" else (PO_WORLD if case[0] == "po" else RICH)

    def body():
        out = []
        universals = (VARS3[2],) if case[0] == "fa" else ()
        for q in (qc, qn, qnn):
            world = build_world(wspec, inst)       # a fresh world and a fresh build for every variant
            got = eval_rows(q, world, inst, predeclare=universals)
            ref = Q.Ref(world, inst, universals=universals)
            exp = [tuple(env[s[1]] for s in q[3]) for env in ref.solutions(q)]
            total = 1
            for v in q[5]:
                total *= len(ref.domain(v))
            out.append((got, exp, total))
        return out

    out = run_isolated(body)
    names = ("c", "not", "notnot")
    res = {"ok": True, "nontrivial": 0 < len(out[0][1]) < out[0][2], "transitions": 3,
           "tags": [f"vars={case[0]}", f"root={root_kind(case[1])}", f"form={case[2]}"]
                   + (["inner_not"] if Q.has_kind(case[1], ("not", "inv")) else []),
           "outcome": f"{len(out[0][1])}/{out[0][2]}"}
    for name, (got, exp, total) in zip(names, out):
        d = diff_rows(got, exp, count=False)
        if d is not None:
            res.update(ok=False, sig=f"{name}:{d}/root={root_kind(case[1])}", obs=(name, row_labels(got)),
                       exp=(name, row_labels(exp)))
            return res
    # differential form of the statement (independent of the oracle): complement and involution
    lab = lambda rows: {tuple(Q.norm(v) for v in r) for r in rows}   # noqa: E731
    c, n, nn = (lab(o[0]) for o in out)
    if c != nn:
        res.update(ok=False, sig="involution", obs=sorted(nn), exp=sorted(c))
    elif c & n or len(c | n) != out[0][2]:
        res.update(ok=False, sig="complement", obs=sorted(n), exp="product minus rows(c)")
    return res


def describe(case, inst):
    qc, qn, qnn = queries_of(case)
    if case[0] in ("xs", "xys"):
        return (Q.up_world(GRID if case[0] == "xs" else RICH, inst) + "\n" + Q.up_query(qc, inst)
                + "\n# every negated leaf not_(L) is ONE object (s = not_(L) written once, s used wherever not_(L) stands);"
                  "\n# expected: the rows of the condition as written, the same as with one object per occurrence")
    wspec = GRID if case[0] == "x" else (PO_WORLD if case[0] == "po" else RICH)
    return (Q.up_world(wspec, inst) + "\n# each variant on a fresh world / fresh build:\n"
            + "\n".join(Q.up_query(q, inst) for q in (qc, qn, qnn))
            + "\n# expected: rows(not_(c)) == product - rows(c); rows(not_(not_(c))) == rows(c)")
