"""C18 - meaning-preserving rewrites of a query do not change its result set.

For every base query the FULL orbit under the generators {swap the operands of an and / or node; re-associate a 3-chain;
write a chain with and_(...) / or_(...) or as several conditions to set_of; mirror a comparison (a < b as b > a, hence
also the literal on either side); contains(c, i) <-> in_(i, c); permute the declaration order of the variables; permute
the selection order; permute the elements of the domains} is enumerated breadth first up to k compositions (3 / 4),
each member is built afresh and evaluated, and all members must return the same set of assignments (differential, no
reference needed) which must also equal the Python oracle.
Bases: every tree of depth <= 1 over the join vocabulary, every 3-chain over representative leaves, depth-2 trees
(thorough).
"""
from __future__ import annotations

import itertools

from .. import qast as Q
from ..common import X, Y, Z, A, L, leaves_xy, XY_REP, rich_world, VARS3, eval_rows, is_exc, root_kind
from ..isolate import run_isolated
from ..space import trees_by_depth
from ..worlds import build_world, Inst

ID = "C18"
ENGINE = "eqlmc-E1"
CASE_TIMEOUT_S = 600       # one case is a whole rewrite orbit (hundreds of builds and evaluations)
RULE = ("cases = base queries; for each the orbit under the rewrite generators is enumerated breadth-first up to k "
        "compositions and every member is evaluated (transitions = evaluations); non-trivial = the base result is neither "
        "empty nor the full product and the orbit has more than one member"
        ' Wave 7: for_all conditions as operands of conjunctions and disjunctions (universal over a variable of its own, over the un-nested elements of y.t); three-way disjunctions with one variable projected away over small worlds.')
ASSUMPTIONS = ["result sets compared", "values non-falsy (falsy: C19)"]
BATCH = 20
TASKS_PER_CHILD = 4

RICH = rich_world()
VXY = VARS3[:2]


class PermInst(Inst):
    """an instantiation whose domains are additionally reversed / rotated (domain permutation generator)"""

    def __init__(self, base: Inst, mode: int):
        super().__init__(base.seed)
        self.mode = mode

    def rotate(self, rows):
        rows = super().rotate(rows)
        if self.mode == 1:
            return rows[::-1]
        if self.mode == 2 and len(rows) > 1:
            return rows[1:] + rows[:1]
        return rows


def bounds(tier):
    return {"compositions": 3 if tier == "quick" else 4, "bases": "depth<=1 over 14 leaves + 3-chains over 4 leaves"
            + (" + depth-2 over 4 leaves" if tier == "thorough" else "")}


def nest3_bases(tier):
    from .c02 import NEST3_LEAVES
    l3 = NEST3_LEAVES[:5] if tier == "quick" else NEST3_LEAVES
    for a, b, c in itertools.permutations(l3, 3):
        for shape in (("and", a, ("or", b, c)), ("or", a, ("and", b, c))):
            if len(Q.cond_vars(shape)) == 3:
                yield shape


def cases(tier, inst):
    k = 3 if tier == "quick" else 4
    # rule trees whose branches join a further variable: every permutation mode of both domains must give the same
    # multiset of conclusions (all tree/kind assignments, also those whose else-if reading C12 leaves open)
    from . import c12
    from ..space import binary_shapes
    for n in range(2, (4 if tier == "quick" else 5) + 1):
        for sh in binary_shapes(n):
            node = c12.label(sh, [0])
            for kinds in c12.kinds_for(node, n, unambiguous_only=False):
                yield ("rule", node, kinds)
    # three variables: the orbit contains every declaration order (operator caches are keyed by variable ids)
    for i, t in enumerate(nest3_bases(tier)):
        if tier == "thorough" or i % 3 == 0:
            yield (t, 3)
    for t in trees_by_depth(leaves_xy(), 1):
        yield (t, k)
    for a, b, c in itertools.product(XY_REP, repeat=3):
        for op in ("and", "or"):
            yield ((op, (op, a, b), c), k)
    for a, b, c in itertools.product(XY_REP[:3], repeat=3):
        yield (("and", ("or", a, b), c), k)
        yield (("or", a, ("and", b, c)), k)
    # negated ordering comparisons between the two variables next to another condition (either of them may be evaluated
    # with the other one's variable already bound, in either operand order after the rewrites)
    ords = [("cmp", "lt", A(X, "q"), A(Y, "q")), ("cmp", "ge", A(Y, "p"), A(X, "p")), ("cmp", "le", A(X, "p"), A(Y, "q"))]
    for a in XY_REP:
        for b in ords:
            yield (("and", a, ("not", b)), k)
            yield (("or", ("not", b), a), k)
            yield (("not", ("or", ("not", a), b)), k)
    # universal conditions as operands: for_all over a variable of its own (z), over the un-nested elements of y.t (built
    # from a free variable), next to / instead of the conditions that bind x and y, in conjunctions and disjunctions
    for f in FA_LEAVES:
        for a in XY_REP:
            for op in ("and", "or"):
                yield ((op, f, a), k, "xy", "fa")
                for b in (XY_REP[:2] if tier == "quick" else XY_REP):
                    if a != b:
                        yield ((op, (("or" if op == "and" else "and"), f, a), b), 3, "xy", "fa")
        yield (f, k, "xy", "fa")
    # three-way disjunctions with one variable projected away over small worlds of two x rows and three DISTINCT y rows:
    # which rows come back between two false rows of one operand depends on the data and on the spelling
    from .c02 import OR3_LEAVES
    from ..common import tiny_domains
    doms_x = [d for d in tiny_domains(2) if len(d) == 2]
    doms_y = [d for d in tiny_domains(3) if len(d) == 3 and len(set(d)) == 3]
    for a, b, c in itertools.permutations(OR3_LEAVES[:4], 3):
        if len(Q.cond_vars(("orf", a, b, c))) < 2 or (tier == "quick" and a != OR3_LEAVES[0]):
            continue
        for da, db in itertools.product(doms_x, doms_y):
            yield (("orf", a, b, c), 2, "x", ("w", (("DA", "Item", da), ("DB", "Item", db))))
    # EXPRESSIONS selected (two expressions of x and y), in every selection order, under conditions that leave x unbound in
    # some or all rows
    yq2 = ("cmp", "eq", A(Y, "q"), L(2))
    for t in (yq2, ("or", yq2, ("cmp", "eq", A(X, "p"), A(Y, "p"))), ("or", ("cmp", "eq", A(X, "p"), A(Y, "p")), yq2),
              ("and", yq2, ("or", ("cmp", "ge", A(Y, "p"), L(2)), ("cmp", "gt", A(X, "p"), L(1)))), XY_REP[0], XY_REP[2]):
        yield (t, k, "exprs", "sel")
    # only some of the variables selected (the other one is a join variable that is projected away)
    proj = leaves_xy()[:7]
    for a, b, c in itertools.permutations(proj, 3):
        if tier == "quick" and hash((a, b, c)) % 3:
            continue
        for which in ("x", "y"):
            yield (("and", ("or", a, b), c), 3, which)
            if tier == "thorough":
                yield (("or", ("and", a, b), c), 3, which)
    if tier == "thorough":
        for t in trees_by_depth(XY_REP, 2):
            if Q.depth(t) == 2 and t[0] != "not":
                yield (t, 3)


_E = ("fl", A(Y, "t"))
FA_LEAVES = [("fa", Z, ("cmp", "ge", A(X, "p"), A(Z, "q"))),
             ("fa", Z, ("or", ("cmp", "ne", A(Y, "p"), A(Z, "p")), ("cmp", "ge", A(X, "q"), L(2)))),
             ("fa", _E, ("cmp", "ge", _E, A(X, "p"))), ("fa", _E, ("cmp", "le", _E, L(2)))]
VZ = VARS3[2]


# ---------------------------------------------------------------- rewrite generators
def positions(t, path=()):
    yield path, t
    if t[0] in ("and", "or", "andf", "orf"):
        for i, c in enumerate(t[1:], 1):
            yield from positions(c, path + (i,))
    elif t[0] in ("not", "inv"):
        yield from positions(t[1], path + (1,))


def replace(t, path, new):
    if not path:
        return new
    i = path[0]
    return t[:i] + (replace(t[i], path[1:], new),) + t[i + 1:]


def rewrites_of_tree(t):
    for path, n in positions(t):
        k = n[0]
        if k in ("and", "or"):
            yield replace(t, path, (k, n[2], n[1]))                                   # swap operands
            if n[1][0] == k:                                                          # (a.b).c -> a.(b.c)
                yield replace(t, path, (k, n[1][1], (k, n[1][2], n[2])))
                yield replace(t, path, (k + "f", n[1][1], n[1][2], n[2]))             # and_(a, b, c)
            if n[2][0] == k:                                                          # a.(b.c) -> (a.b).c
                yield replace(t, path, (k, (k, n[1], n[2][1]), n[2][2]))
            yield replace(t, path, (k + "f", n[1], n[2]))                             # and_(a, b)
        elif k in ("andf", "orf"):
            args = n[1:]
            yield replace(t, path, (k,) + tuple(reversed(args)))
            b = k[:-1]
            folded = args[0]
            for a in args[1:]:
                folded = (b, folded, a)
            yield replace(t, path, folded)
        elif k == "cmp":
            yield replace(t, path, ("cmp", Q.MIRROR[n[1]], n[3], n[2]))               # mirror
        elif k == "in":
            yield replace(t, path, ("has", n[2], n[1]))
        elif k == "has":
            yield replace(t, path, ("in", n[2], n[1]))


def neighbours(m):
    conds, vars_, sel, perm = m
    for i, c in enumerate(conds):
        for c2 in rewrites_of_tree(c):
            yield (conds[:i] + (c2,) + conds[i + 1:], vars_, sel, perm)
    # a root conjunction as several conditions, and back
    if len(conds) == 1 and conds[0][0] in ("and", "andf"):
        yield (tuple(conds[0][1:]), vars_, sel, perm)
    if len(conds) > 1:
        yield ((("andf",) + conds,), vars_, sel, perm)
        yield (tuple(reversed(conds)), vars_, sel, perm)
    for i in range(len(vars_) - 1):                           # declaration order (adjacent transpositions)
        yield (conds, vars_[:i] + (vars_[i + 1], vars_[i]) + vars_[i + 2:], sel, perm)
    for i in range(len(sel) - 1):                             # selection order
        yield (conds, vars_, sel[:i] + (sel[i + 1], sel[i]) + sel[i + 2:], perm)
    for p in (0, 1, 2):
        if p != perm:
            yield (conds, vars_, sel, p)                      # permuted domains


def orbit(base, k):
    seen = {base: 0}
    frontier = [base]
    for d in range(1, k + 1):
        nxt = []
        for m in frontier:
            for n in neighbours(m):
                if n not in seen:
                    seen[n] = d
                    nxt.append(n)
        frontier = nxt
    return seen


def run_rule_case(case, inst):
    from . import c12
    _, node, kinds = case
    results = {}
    for xperm in (0, 1, 2):
        for zperm in (0, 1, 2):
            out, exp = c12.join_make_and_eval_twice(("zjoin", node, kinds, True), inst, xperm, zperm)
            # the statement promises the result SET (how often a conclusion that does not mention z is repeated is
            # not part of it)
            results[(xperm, zperm)] = sorted(set(out[0])) if isinstance(out[0], list) else out[0]
    base = results[(0, 0)]
    res = {"ok": True, "nontrivial": isinstance(base, list) and len(base) > 0, "transitions": len(results),
           "tags": ["family=rule", f"nodes={c12.size(node)}"], "outcome": str(len(base)) if isinstance(base, list) else "exc"}
    for perm, got in results.items():
        if got != base:
            res.update(ok=False, sig="rule:domain-permutation-changes-result",
                       obs=(f"x domain permutation {perm[0]}, z domain permutation {perm[1]}", got[:12] if isinstance(got, list) else got),
                       exp=("as given", base[:12] if isinstance(base, list) else base))
            break
    return res


def run_case(case, inst):
    if case[0] == "rule":
        return run_rule_case(case, inst)
    tree, k = case[0], case[1]
    wspec = case[3][1] if len(case) == 4 and case[3][0] == "w" else RICH
    exprs = len(case) == 4 and case[3] == "sel"
    fa = len(case) == 4 and case[3] == "fa"          # z is the universal variable of a for_all: declared, neither selected nor a row variable
    three = "z" in Q.cond_vars(tree) and not fa
    vars0 = VARS3 if three else VXY
    sel0 = (X, Y, Z) if three else (X, Y)
    if exprs:
        sel0 = (A(X, "tag"), A(X, "p"), Y)
    elif len(case) == 3 or (len(case) == 4 and not fa):
        sel0 = (("v", case[2]),)
    base = ((tree,), vars0, sel0, 0)
    members = orbit(base, k)
    universals = (VZ,) if fa else ()

    def evaluate(m):
        conds, vars_, sel, perm = m
        q = ("Q", "an", "setof", sel, conds, vars_)
        world = build_world(wspec, PermInst(inst, perm))
        rows = eval_rows(q, world, inst, predeclare=universals)
        if is_exc(rows):
            return rows, None
        names = [s[1] if s[0] == "v" else repr(s) for s in sel]
        got = frozenset(frozenset(zip(names, (Q.norm(v) for v in r))) for r in rows)
        return got, (q, world)

    def body():
        results = {}
        exp = None
        for m in members:
            got, qw = evaluate(m)
            results[m] = got
            if exp is None and qw is not None:
                q, world = qw
                ref = Q.Ref(world, inst, universals=universals)
                sols = ref.solutions(("Q", "an", "setof", sel0, (tree,), vars0))
                exp = frozenset(frozenset((s_[1] if s_[0] == "v" else repr(s_), Q.norm(ref.value(s_, env))) for s_ in sel0)
                                for env in sols)
                total = 1
                for v in vars0:
                    total *= len(ref.domain(v))
        return results, exp, total

    results, exp, total = run_isolated(body)
    res = {"ok": True, "nontrivial": len(members) > 1 and 0 < len(exp) < total, "transitions": len(members),
           "tags": [f"root={root_kind(tree)}", f"orbit_size_bucket={min(len(members) // 50 * 50, 400)}"]
                   + (["for_all"] if fa else []),
           "outcome": str(len(exp))}
    base_res = results[base]
    for m, got in results.items():
        if got != exp:
            dist = members[m]
            what = ("exc:" + got[1]) if is_exc(got) else ("differs-from-base" if (got != base_res and base_res == exp)
                                                          else "differs-from-oracle")
            conds, vars_, sel, perm = m
            res.update(ok=False, sig=f"{what}/root={root_kind(tree)}",
                       obs=(f"member at distance {dist}: " + Q.up_query(("Q", "an", "setof", sel, conds, vars_), inst)
                            + f" [domain permutation {perm}]",
                            got if is_exc(got) else sorted(sorted(r) for r in got)[:8], "size", None if is_exc(got) else len(got)),
                       exp=("size", len(exp), sorted(sorted(r) for r in exp)[:8]))
            break
    return res


def describe(case, inst):
    if case[0] == "rule":
        from . import c12
        return (c12.describe(("zjoin", case[1], case[2], True), inst)
                + "\n# C18: the same rule tree over the x / z domains as given, reversed and rotated must conclude the same")
    tree, k = case[0], case[1]
    three = "z" in Q.cond_vars(tree) and len(case) != 4
    tiny = len(case) == 4 and case[3][0] == "w"
    sel = (A(X, "tag"), A(X, "p"), Y) if len(case) == 4 and case[3] == "sel" else (
        (("v", case[2]),) if len(case) == 3 or tiny else ((X, Y, Z) if three else (X, Y)))
    return (Q.up_world(case[3][1] if tiny else RICH, inst)
            + ("\nwith symbolic_mode(): z = let(Item, DC)   # the universal variable" if len(case) == 4 and not tiny else "")
            + "\nbase: " + Q.up_query(("Q", "an", "setof", sel, (tree,),
                                                              VARS3 if three else VXY), inst)
            + f"\n# every query reachable from the base by <= {k} rewrites (swap operands, re-associate, and_()/or_() form, "
              "several conditions, mirror a comparison, contains<->in_, declaration order, selection order, domain "
              "permutation) must return the same set of (x, y) assignments")
