"""C08 - symbolic mode is confined to its block.

Engine E2.  Operations: enter symbolic_mode() / rule_mode() / symbolic_mode(q) / rule_mode(q) / `with q:` (at most 3
nested blocks, driven through __enter__/__exit__ on an explicit LIFO stack exactly as nested `with` statements do);
leave the innermost block normally / by an exception raised inside it; for two result iterators: create (q.evaluate()),
next, close, drop the last reference (+ gc.collect()), exhaust - at any point inside or outside any block.
Every enabled sequence up to the tier's depth is replayed on fresh real objects and compared AFTER EVERY STEP with a
reference stack machine: mode = mode of the innermost mode-setting block else none; expression-context depth = number
of open blocks that carry a query.
Observed after every step: in_symbolic_mode() and which mode; whether constructing a @symbol class yields an instance or
an expression; whether a @predicate call is executed or built; whether the ten variable operators (attribute, index,
call, ==, !=, <, <=, >, >=, contains) are rejected or accepted; the expression-context depth.
"""
from __future__ import annotations

import gc
import weakref

import eqlmc  # noqa: F401
from entity_query_language import (an, the, infer, entity, set_of, let, symbolic_mode, rule_mode, predicate,
                                   MultipleSolutionFound, NoSolutionFound)
from entity_query_language.symbolic import in_symbolic_mode, SymbolicExpression
from entity_query_language.enums import EQLMode

from .. import worlds as W
from ..common import exc_obs
from ..isolate import run_isolated
from ..space import histories

ID = "C08"
ENGINE = "eqlmc-E2"
TECHNIQUE = ("stateless exploration of every enabled block / iterator life-cycle history up to a depth bound on the real "
             "library, compared after every step with a reference stack machine")
RULE = ("cases = operation histories (enter/leave blocks, iterator create/next/close/drop/exhaust), every enabled "
        "sequence up to the depth bound; non-trivial = the history contains both a block operation and an iterator "
        "operation; states = distinct (observation, iterator states, block stack) fingerprints reached"
        ' Wave 7: the same histories over evaluations that raise (user code raising inside next(), the(...) without / with several solutions), handled inside the open blocks.')
ASSUMPTIONS = ["single thread, single contextvars context (what the statement quantifies over)",
               "blocks are entered/left via __enter__/__exit__ in LIFO order, as nested with-statements do"]
BATCH = 300
TASKS_PER_CHILD = 4

ENTER = ("SM", "RM", "SMq", "RMq", "Wq")
MODE_OF = {"SM": "query", "RM": "rule", "SMq": "query", "RMq": "rule", "Wq": None}
HAS_Q = {"SM": False, "RM": False, "SMq": True, "RMq": True, "Wq": True}
MAX_BLOCKS = 3
MAX_NEXT = 2


# ---------------------------------------------------------------- reference machine (pure)
def initial():
    return ((), ("none", 0), ("none", 0))      # block stack, iterator 1 (state, nexts), iterator 2


def enabled(st):
    blocks, i1, i2 = st
    ops = []
    if len(blocks) < MAX_BLOCKS:
        ops += list(ENTER)
    if blocks:
        ops += ["X", "XE"]
    for k, it in ((1, i1), (2, i2)):
        if it[0] == "none":
            if k == 1 or i1[0] != "none":
                ops.append(f"C{k}")
        elif it[0] in ("fresh", "started"):
            if it[1] < MAX_NEXT:
                ops.append(f"N{k}")
            ops += [f"L{k}", f"D{k}", f"E{k}"]
    return ops


def step(st, op):
    blocks, i1, i2 = st
    if op in ENTER:
        return (blocks + (op,), i1, i2)
    if op in ("X", "XE"):
        return (blocks[:-1], i1, i2)
    k = int(op[1])
    it = (i1, i2)[k - 1]
    if op[0] == "C":
        it = ("fresh", 0)
    elif op[0] == "N":
        it = ("started", it[1] + 1)      # the real iterator may turn out to be exhausted; the harness then marks it done
    else:
        it = ("done", it[1])
    return (blocks, it, i2) if k == 1 else (blocks, i1, it)


def ref_mode(blocks):
    for b in reversed(blocks):
        if MODE_OF[b] is not None:
            return MODE_OF[b]
    return "none"


def ref_depth(blocks):
    return sum(1 for b in blocks if HAS_Q[b])


def bounds(tier):
    return {"history_depth": 5 if tier == "quick" else 6, "max_nested_blocks": MAX_BLOCKS, "iterators": 2,
            "max_next_per_iterator": MAX_NEXT}


def cases(tier, inst):
    d = 5 if tier == "quick" else 6
    for h in histories(initial(), enabled, step, d):
        if h:
            yield h
    # the same histories (one level shallower) over queries whose evaluation runs OTHER evaluations inside it: the domain
    # of q1's variable is the lazy result iterator of another query, q2's condition is a user predicate that opens blocks
    # of its own and evaluates an(...) and the(...) queries in them
    for h in histories(initial(), enabled, step, d - 1):
        if h and any(op[0] in "NE" and op not in ENTER for op in h):
            yield ("@nested",) + h


    # the same histories over evaluations that RAISE: q1's condition is user code that raises at its j-th call (the
    # exception comes out of next()), q2 is a the(...) with several / with no solutions (evaluate() raises at once); the
    # caller handles the exception where it is and carries on - inside whatever blocks are open
    for variant in ("@raising2", "@raising1"):
        for h in histories(initial(), enabled, step, d - 1):
            if h and any(op in ("N1", "E1", "C2") for op in h) and any(op in ENTER for op in h):
                yield (variant,) + h


NESTED = {}


@predicate
def has_not_smaller(item):
    """user code that builds and evaluates queries of its own, in blocks of its own"""
    with symbolic_mode():
        v = let(W.Item, NESTED["das"])
        found = any(True for _ in an(entity(v, v.p >= item.p)).evaluate())
        v2 = let(W.Item, NESTED["dbs"])
        same = the(entity(v2, v2.tag == item.tag)).evaluate() is item
    with rule_mode():
        v3 = let(W.Item, NESTED["dbs"])
        made = list(infer(entity(W.Made(a=v3), v3.tag == item.tag)).evaluate())
    return found and same and len(made) == 1 and isinstance(made[0], W.Made) and made[0].a is item


# ---------------------------------------------------------------- the real thing
class Injected(Exception):
    pass


def observe(x, item):
    """what a user can see of the mode right now"""
    m = "none"
    if in_symbolic_mode():
        m = "query" if in_symbolic_mode(EQLMode.Query) else ("rule" if in_symbolic_mode(EQLMode.Rule) else "other")
    try:
        o = W.Other(p=1)
        construct = "instance" if isinstance(o, W.Other) else ("expression" if isinstance(o, SymbolicExpression) else type(o).__name__)
    except Exception as e:
        construct = f"exc:{type(e).__name__}"
    try:
        r = W.p_eq(item, 1)
        pred = "executed" if isinstance(r, bool) else ("expression" if isinstance(r, SymbolicExpression) else type(r).__name__)
    except Exception as e:
        pred = f"exc:{type(e).__name__}"
    rejected = 0
    accepted = 0
    for f in (lambda: x.p, lambda: x[0], lambda: x(), lambda: x == 1, lambda: x != 1, lambda: x < 1, lambda: x <= 1,
              lambda: x > 1, lambda: x >= 1, lambda: x.__contains__(1)):
        try:
            r = f()
            if isinstance(r, SymbolicExpression):
                accepted += 1
        except AttributeError:
            rejected += 1
        except Exception:
            pass
    try:
        depth = len(SymbolicExpression._symbolic_expression_stack_)
    except Exception:
        depth = None
    return (m, construct, pred, f"ops:{accepted}acc/{rejected}rej", depth)


def expected_obs(blocks):
    m = ref_mode(blocks)
    if m == "none":
        return ("none", "instance", "executed", "ops:0acc/10rej", ref_depth(blocks))
    return (m, "expression", "expression", "ops:10acc/0rej", ref_depth(blocks))


def run_case(hist, inst):
    nested = hist[0] == "@nested"
    raising = hist[0] if hist[0].startswith("@raising") else None
    full_case = hist
    if nested or raising:
        hist = hist[1:]

    def body():
        W.LOG.reset()
        das = [W.Item(p=1, tag="a0"), W.Item(p=2, tag="a1"), W.Item(p=3, tag="a2")]
        dbs = [W.Item(p=1, tag="b0"), W.Item(p=3, tag="b1")]
        with symbolic_mode():
            x = let(W.Item, das)
            y = let(W.Item, dbs)
            if nested:
                NESTED.update(das=das, dbs=dbs)
                w = let(W.Item, das)
                q0 = an(entity(w, w.p >= 1))
                x1 = let(W.Item, q0.evaluate())           # a result iterator is a legitimate (lazy) domain
                q1 = an(entity(x1, x1.p >= 1))
                q2 = an(entity(y, has_not_smaller(y)))
            elif raising:
                q1 = an(entity(x, x.is_p(2) | (x.p >= 1)))
                q2 = the(entity(y, y.p >= (1 if raising == "@raising2" else 7)))
                W.LOG.raise_at = ("is_p", 2 if raising == "@raising2" else 1)
            else:
                q1 = an(entity(x, x.p >= 1))
                q2 = an(set_of([x, y], x.p <= y.p))
            z = let(W.Item, das)
            q3 = an(entity(z, z.p > 1))
        queries = {1: q1, 2: q2}
        st = initial()
        cms = []
        its = {}
        fps = set()
        trans = 0
        bad = None
        iter_raised = []
        obs0 = observe(x, das[0])
        if obs0 != expected_obs(()):
            return ("initial", -1, None, obs0, expected_obs(())), 0, fps, 0
        for i, op in enumerate(hist):
            trans += 1
            try:
                if op in ENTER:
                    cm = {"SM": lambda: symbolic_mode(), "RM": lambda: rule_mode(), "SMq": lambda: symbolic_mode(q3),
                          "RMq": lambda: rule_mode(q3), "Wq": lambda: q3}[op]()
                    cm.__enter__()
                    cms.append(cm)
                elif op == "X":
                    cms.pop().__exit__(None, None, None)
                elif op == "XE":
                    cm = cms.pop()
                    exc = Injected("raised inside the block")
                    suppressed = cm.__exit__(Injected, exc, None)
                    if suppressed:
                        bad = ("exception-swallowed", i, op, "True", "False")
                        break
                else:
                    k = int(op[1])
                    if op[0] == "C" and raising and k == 2:
                        try:
                            queries[k].evaluate()
                            bad = ("the-did-not-raise", i, op, "returned", "MultipleSolutionFound / NoSolutionFound")
                            break
                        except (MultipleSolutionFound, NoSolutionFound):
                            iter_raised.append(op)
                        its[k] = (_ for _ in ())      # the(...) hands out no iterator: the later steps on it are no-ops
                    elif op[0] == "C":
                        its[k] = queries[k].evaluate()
                    elif op[0] == "N":
                        try:
                            next(its[k])
                        except StopIteration:
                            pass
                        except Exception:
                            # an exception out of the evaluation itself (two interleaved iterators over queries that
                            # share a lazily consumed domain can raise `dictionary changed size during iteration`) is
                            # not C08's subject; the mode after the step still is
                            iter_raised.append(op)
                    elif op[0] == "L":
                        its[k].close()
                    elif op[0] == "D":
                        wr = weakref.ref(its[k])
                        del its[k]
                        if wr() is not None:      # not freed by reference counting: let the collector finalise it
                            gc.collect()
                    elif op[0] == "E":
                        try:
                            for _ in its[k]:
                                pass
                        except Exception:
                            iter_raised.append(op)
            except Exception as e:
                bad = ("step-raised", i, op, exc_obs(e), "no exception")
                break
            st = step(st, op)
            got = observe(x, das[0])
            exp = expected_obs(st[0])
            fps.add(hash((got, st)))
            if got != exp:
                bad = ("mode", i, op, got, exp)
                break
        # cleanup (not judged): close iterators, leave blocks
        for it in list(its.values()):
            try:
                it.close()
            except Exception:
                pass
        its.clear()
        while cms:
            try:
                cms.pop().__exit__(None, None, None)
            except Exception:
                pass
        W.LOG.reset()
        return bad, trans, fps, len(iter_raised)

    bad, trans, fps, nraised = run_isolated(body)
    has_block = any(op in ENTER for op in hist)
    has_iter = any(op[0] in "CNLDE" and op not in ENTER and op not in ("X", "XE") for op in hist)
    res = {"ok": bad is None, "nontrivial": has_block and has_iter, "transitions": trans, "fps": fps,
           "tags": [f"len={len(hist)}"] + (["nested_evaluations"] if nested else []) + (["raising_evaluations"] if raising else []) + (["evaluation_raised_inside_iterator_step"] if nraised else []) + [f"op={op[0] if op not in ENTER and op not in ('X', 'XE') else op}" for op in set(hist)],
           "outcome": None}
    if bad is not None:
        kind, i, op, got, exp = bad
        # signature: which operation broke it and where it stood relative to blocks
        blocks = ()
        s = initial()
        for o in hist[:i]:
            s = step(s, o)
        inside = "inside" if s[0] else "outside"
        res.update(sig=f"{kind}:{op}/{inside}" + ("/nested" if nested else "") + ("/raising" if raising else ""),
                   obs=(f"after step {i + 1} of {list(hist)}", got), exp=exp)
    return res


LEGEND = ("SM=enter symbolic_mode()  RM=enter rule_mode()  SMq=enter symbolic_mode(q3)  RMq=enter rule_mode(q3)  "
          "Wq=enter `with q3:`  X=leave innermost block  XE=leave it by an exception  "
          "C<i>=it<i> = q<i>.evaluate()  N<i>=next(it<i>)  L<i>=it<i>.close()  D<i>=del it<i>; gc.collect()  "
          "E<i>=exhaust it<i>")


def describe(hist, inst):
    if hist[0].startswith("@raising"):
        two = hist[0] == "@raising2"
        return ("das = [Item(p=1), Item(p=2), Item(p=3)]; dbs = [Item(p=1), Item(p=3)]\n"
                f"# Item.is_p raises at its {'second' if two else 'first'} call\n"
                "with symbolic_mode(): x = let(Item, das); y = let(Item, dbs); q1 = an(entity(x, x.is_p(2) | (x.p >= 1))); "
                f"q2 = the(entity(y, y.p >= {1 if two else 7})); z = let(Item, das); q3 = an(entity(z, z.p > 1))\n"
                f"history: {' ; '.join(hist[1:])}\n# {LEGEND}\n"
                "# C2 = try: q2.evaluate() except (MultipleSolutionFound, NoSolutionFound): pass; an exception out of next(it1) is "
                "caught where it is raised\n"
                "# expected after every step: mode == mode of the innermost mode-setting open block (else none)")
    if hist[0] == "@nested":
        return ("das = [Item(p=1), Item(p=2), Item(p=3)]; dbs = [Item(p=1), Item(p=3)]\n"
                "@predicate\ndef has_not_smaller(item):\n"
                "    with symbolic_mode():\n"
                "        v = let(Item, das); found = any(True for _ in an(entity(v, v.p >= item.p)).evaluate())\n"
                "        v2 = let(Item, dbs); same = the(entity(v2, v2.tag == item.tag)).evaluate() is item\n"
                "    with rule_mode(): v3 = let(Item, dbs); made = list(infer(entity(Made(a=v3), v3.tag == item.tag)).evaluate())\n"
                "    return found and same and len(made) == 1 and made[0].a is item\n"
                "with symbolic_mode(): w = let(Item, das); q0 = an(entity(w, w.p >= 1)); x1 = let(Item, q0.evaluate()); "
                "q1 = an(entity(x1, x1.p >= 1)); y = let(Item, dbs); q2 = an(entity(y, has_not_smaller(y))); "
                "z = let(Item, das); q3 = an(entity(z, z.p > 1))\n"
                f"history: {' ; '.join(hist[1:])}\n# {LEGEND}\n"
                "# expected after every step: mode == mode of the innermost mode-setting open block (else none)")
    return ("das = [Item(p=1), Item(p=2), Item(p=3)]; dbs = [Item(p=1), Item(p=3)]\n"
            "with symbolic_mode(): x = let(Item, das); y = let(Item, dbs); q1 = an(entity(x, x.p >= 1)); "
            "q2 = an(set_of([x, y], x.p <= y.p)); z = let(Item, das); q3 = an(entity(z, z.p > 1))\n"
            f"history: {' ; '.join(hist)}\n# {LEGEND}\n"
            "# expected after every step: mode == mode of the innermost mode-setting open block (else none); "
            "Other(p=1) is an instance outside / an expression inside; operators rejected outside / accepted inside")
