"""C02 - a multi-variable query returns exactly the satisfying assignments.

Enumerated: 1-3 variables (incl. a self-join: two variables over one domain), join / filter / chained-attribute /
identity / membership / predicate leaves in both operand orders, trees to the tier's depth, no condition at all,
conditions over a strict subset of the variables, every non-empty ordered selection of the variables plus selections of
attribute expressions; datasets: the rich world and every tiny world (all multisets of <=2 (3) rows over a 2x2 grid per
variable, the empty domain included).
Oracle: product filter projected on the selection: set equality always; row count equality (hence no repeated row) when
every variable of the query is selected; every row[expr] is the expression's value under that assignment.
"""
from __future__ import annotations

import itertools

from .. import qast as Q
from ..common import (X, Y, Z, A, L, leaves_xy, leaves_xyz, leaves_self, XY_REP, rich_world, VARS3, VARS_SELF, tiny_domains,
                      eval_rows, eval_rows_after_partial, diff_rows, row_labels, is_exc, root_kind)
from ..isolate import run_isolated
from ..space import trees_by_depth, nonempty_ordered_selections
from ..worlds import build_world

ID = "C02"
ENGINE = "eqlmc-E1"
RULE = ("cases = (variable set, condition tree or none, ordered selection, world); all trees of depth<=d over the join "
        "vocabulary x all selections x rich world, plus depth<=1 trees x every tiny world; non-trivial = expected row "
        "set neither empty nor the full product"
        ' Wave 7: selections with several expressions of one variable; three-way disjunctions with one variable projected away over every world of 2 x rows and 3 y rows on the 2x2 grid.')
ASSUMPTIONS = ["attribute values non-falsy (falsy values: C19)", "row order is not compared (the statement promises a set)"]

VARSETS = {"xy": VARS3[:2], "xyz": VARS3, "self": VARS_SELF, "x": VARS3[:1]}
RICH = rich_world()
NEST3_LEAVES = [("cmp", "eq", A(X, "p"), L(1)), ("cmp", "eq", A(Y, "p"), L(1)), ("cmp", "ge", A(Z, "q"), L(2)),
                ("cmp", "eq", A(X, "p"), A(Y, "p")), ("cmp", "lt", A(Y, "q"), A(Z, "q")), ("cmp", "ne", A(X, "q"), A(Z, "p")),
                ("cmp", "eq", A(Z, "p"), L(2))]
OR3_LEAVES = [("cmp", "gt", A(Y, "q"), A(X, "p")), ("cmp", "eq", A(X, "p"), L(1)), ("cmp", "eq", A(Y, "p"), A(X, "q")),
              ("cmp", "eq", A(Y, "q"), L(2)), ("cmp", "lt", A(X, "q"), A(Y, "p"))]
XYZ_REP = XY_REP + [("cmp", "eq", A(Y, "p"), A(Z, "p")), ("cmp", "ne", A(X, "p"), A(Z, "q"))]


def bounds(tier):
    return {"variables": "1..3", "depth_rich": 1 if tier == "quick" else 2, "tiny_domain_max_rows": 2 if tier == "quick" else 3,
            "selections": "all non-empty ordered selections of the variables + attribute-expression selections"}


def sels_for(names, with_attr=True):
    vs = [("v", n) for n in names]
    out = list(nonempty_ordered_selections(vs))
    if with_attr and len(vs) >= 2:
        out.append((A(vs[0], "p"), vs[1]))
        out.append((A(vs[1], "q"), A(vs[0], "p")))
        out.append((vs[0], A(vs[0], "p"), vs[1]))
        # SEVERAL expressions over one variable (the tag identifies the object: a row mixing two assignments is visible),
        # the variable itself after one of its expressions
        out.append((A(vs[0], "tag"), A(vs[0], "p")))
        out.append((A(vs[0], "p"), vs[0]))
        out.append((A(vs[0], "tag"), vs[1], A(vs[0], "q")))
        out.append((A(vs[1], "tag"), A(vs[0], "p"), A(vs[1], "q")))
    return out


def cases(tier, inst):
    thorough = tier == "thorough"
    # (a) two variables, rich world, full vocabulary, depth<=1, all selections
    for t in trees_by_depth(leaves_xy(), 1):
        for sel in sels_for("xy"):
            yield ("xy", t, sel, "rich")
    # (b) three variables
    sels3 = sels_for("xyz") if thorough else [s for s in sels_for("xyz") if len(s) in (1, 3)]
    for t in trees_by_depth(leaves_xyz(), 1):
        for sel in sels3:
            yield ("xyz", t, sel, "rich")
    # (c) self-join
    for t in trees_by_depth(leaves_self(), 2 if thorough else 1):
        for sel in sels_for("xy", with_attr=False):
            yield ("self", t, sel, "rich")
    # (d) no condition at all: pure Cartesian completion
    for vk in ("x", "xy", "xyz"):
        for sel in sels_for(vk):
            yield (vk, None, sel, "rich")
    # (e) tiny worlds
    n = 3 if thorough else 2
    doms = list(tiny_domains(n))
    for da, db in itertools.product(doms, doms):
        w = (("DA", "Item", da), ("DB", "Item", db))
        for t in trees_by_depth(XY_REP, 1):
            yield ("xy", t, (X, Y), w)
    # (f) depth 2
    for t in trees_by_depth(XY_REP, 2):
        if Q.depth(t) < 2:
            continue
        for sel in ((X, Y), (Y,)) + (((Y, X), (X,)) if thorough else ()):
            yield ("xy", t, sel, "rich")
    # (g) three variables, a connective nested in the other one, under EVERY declaration order of the variables (the
    #     operator caches are keyed by variable ids, i.e. by declaration order)
    l3 = NEST3_LEAVES
    for a, b, c in itertools.product(l3, repeat=3):
        if len({a, b, c}) < 3:
            continue
        for shape in (("and", a, ("or", b, c)), ("or", a, ("and", b, c)), ("and", ("or", a, b), c), ("or", ("and", a, b), c),
                      ("and", ("or", a, b), ("or", c, b)), ("or", ("and", a, b), ("and", c, b))):
            if len(Q.cond_vars(shape)) < 3:
                continue
            for order in itertools.permutations("xyz"):
                yield ("decl:" + "".join(order), shape, (X, Y, Z), "rich")
    # (h) three-way disjunctions (flat and with a conjunction inside) whose operands mention x only, y only or both, with
    #     ONE of the two variables selected, over every world of two x rows and three y rows on the 2x2 grid (which rows
    #     come back between two false rows of one operand is a matter of the data)
    doms_x = [d for d in tiny_domains(2) if len(d) == 2]
    doms_y = [d for d in tiny_domains(3) if len(d) == 3]
    for a, b, c in itertools.permutations(OR3_LEAVES, 3):
        if len(Q.cond_vars(("orf", a, b, c))) < 2:
            continue
        for shape in (("orf", a, b, c), ("or", ("and", a, b), c)):
            for sel in (((X,), (Y,)) if thorough else ((X,),)):
                for da, db in itertools.product(doms_x, doms_y):
                    yield ("xy", shape, sel, (("DA", "Item", da), ("DB", "Item", db)))
    if thorough:
        for t in trees_by_depth(XYZ_REP, 2):
            if Q.depth(t) < 2:
                continue
            for sel in ((X, Y, Z), (Z, X), (Y,)):
                yield ("xyz", t, sel, "rich")
        for t in trees_by_depth(leaves_xy()[:8], 2):
            if Q.depth(t) < 2:
                continue
            yield ("xy", t, (X, Y), "rich")


def query_of(case):
    vk, tree, sel, w = case
    used = Q.cond_vars(sel) | (Q.cond_vars(tree) if tree else set())
    if vk.startswith("decl:"):
        byname = {v[0]: v for v in VARS3}
        vars_ = tuple(byname[n] for n in vk[5:] if n in used)
    else:
        vars_ = tuple(v for v in VARSETS[vk] if v[0] in used)
    return ("Q", "an", "setof", tuple(sel), (tree,) if tree else (), vars_)


def world_of(case):
    return RICH if case[3] == "rich" else case[3]


def expected_rows(q, world, inst):
    ref = Q.Ref(world, inst)
    sols = ref.solutions(q)
    return [tuple(ref.value(s, env) for s in q[3]) for env in sols], sols


def run_case(case, inst):
    q = query_of(case)
    wspec = world_of(case)

    def body():
        world = build_world(wspec, inst)
        got = eval_rows(q, world, inst)
        exp, sols = expected_rows(q, world, inst)
        # the same query built afresh on a fresh world: its first evaluation is closed after one result, then it is
        # evaluated fully
        world2 = build_world(wspec, inst)
        again = eval_rows_after_partial(q, world2, inst)
        exp2, _ = expected_rows(q, world2, inst)
        total = 1
        for v in q[5]:
            total *= len(world[v[3]])
        return got, again, exp, exp2, total

    got, again, exp, exp2, total = run_isolated(body)
    all_selected = {v[0] for v in q[5]} <= {s[1] for s in q[3] if s[0] == "v"}
    d = diff_rows(got, exp, count=all_selected)
    if d is None and again is not None:
        # the same query object once more, after an evaluation that was closed after its first result
        d = diff_rows(again, exp2, count=all_selected)
        if d is not None:
            d, got, exp = "after-abandoned-evaluation:" + d, again, exp2
    tree = case[1]
    res = {"ok": d is None, "nontrivial": 0 < len(exp) < total,
           "transitions": 1 + (0 if is_exc(got) else len(got)),
           "tags": [f"vars={case[0]}", f"root={root_kind(tree) if tree else 'none'}", f"nsel={len(case[2])}",
                    "all_selected" if all_selected else "projected", "world=" + ("rich" if case[3] == "rich" else "tiny")],
           "outcome": str(len(set(map(repr, exp))))}
    if d is not None:
        res.update(sig=f"{d}/{'all' if all_selected else 'proj'}/root={root_kind(tree) if tree else 'none'}",
                   obs=row_labels(got), exp=row_labels(exp))
    return res


def describe(case, inst):
    return (Q.up_world(world_of(case), inst) + "\n" + Q.up_query(query_of(case), inst)
            + "\nrows = [tuple(r[s] for s in selected) for r in q.evaluate()]   # expected: product filter, projected"
            "\n# and, built afresh: it = q.evaluate(); next(it, None); it.close(); rows2 = [... for r in q.evaluate()]   # expected: the same")
