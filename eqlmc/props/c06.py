"""C06 - `the` returns the unique solution or raises, consistently with `an`.

Enumerated: descriptors in which every variable is selected - entity over one variable, set_of over both variables of a
join (both selection orders) - x condition trees (negations included) x every small dataset (all multisets of <=2 (3)
rows), which yields solution counts 0, 1 and >=2 for the trees.  Every `the` query is evaluated twice.
Oracle: outcome class from the number of satisfying assignments (Python oracle; also cross-checked against an(...) built
afresh): 0 -> NoSolutionFound, 1 -> the value/row an(...) yields (by identity), >=2 -> MultipleSolutionFound; the same
on re-evaluation.
"""
from __future__ import annotations

import itertools

import eqlmc  # noqa: F401
from entity_query_language import MultipleSolutionFound, NoSolutionFound

from .. import qast as Q
from ..common import (X, Y, A, L, leaves_single, REPRESENTATIVE_8, XY_REP, grid_row, tiny_domains, root_kind, exc_obs,
                      VARS3)
from ..isolate import run_isolated
from ..space import trees_by_depth
from ..worlds import build_world

ID = "C06"
ENGINE = "eqlmc-E1"
RULE = ("cases = (descriptor kind, condition tree, dataset); all trees of depth<=1 x all small datasets; non-trivial = "
        "the dataset has at least one satisfying and one non-satisfying assignment; outcome classes 0/1/>=2 are "
        "counted in `outcomes`")
ASSUMPTIONS = ["values non-falsy (falsy: C19)"]

GRID9 = [(p, q) for p in (1, 2, 3) for q in (1, 2, 3)]
VX = (("x", "let", "Item", "D"),)


def grid_worlds(max_rows):
    for n in range(0, max_rows + 1):
        for combo in itertools.combinations_with_replacement(range(9), n):
            yield combo


def bounds(tier):
    return {"single_var_rows": 2 if tier == "quick" else 3, "two_var_rows_per_domain": 2, "tree_depth": 1}


def cases(tier, inst):
    thorough = tier == "thorough"
    worlds1 = list(grid_worlds(3 if thorough else 2))
    full = leaves_single()
    for w in worlds1:
        for t in full:
            yield ("entity", t, w)
            yield ("entity", ("not", t), w)
        for t in trees_by_depth(REPRESENTATIVE_8, 1):
            if Q.depth(t) == 1 and t[0] != "not":
                yield ("entity", t, w)
        yield ("entity", None, w)
    # objects with VALUE equality (dataclass eq): two distinct objects with equal fields are two solutions
    vleaves = [("cmp", "eq", A(X, "p"), L(1)), ("cmp", "ge", A(X, "p"), A(X, "q")), ("cmp", "ne", A(X, "q"), L(2)),
               ("or", ("cmp", "eq", A(X, "p"), L(2)), ("cmp", "eq", A(X, "q"), L(2))),
               ("not", ("cmp", "eq", A(X, "p"), L(1)))]
    for dom in tiny_domains(3):
        for t in vleaves + [None]:
            yield ("ventity", t, dom)
    for da in tiny_domains(2):
        for db in tiny_domains(2):
            for t in (("cmp", "eq", A(X, "p"), A(Y, "p")), ("cmp", "le", A(X, "q"), A(Y, "p")), None):
                yield ("vsetof", t, (da, db))
    # the(...) around a predicate-form term with a field constraint, the(T(From(d), p=k)): such a term is an an(...) of its
    # own, `the` must still be a uniqueness check
    for w in worlds1:
        for k in (1, 2):
            for f in ("p", "q"):
                yield ("pformthe", (f, k), w)
    # two `the` queries (and an `an`) over ONE variable: the first may stop in the middle of the domain
    # (MultipleSolutionFound is raised at the second solution); the other must still see the whole domain
    reps = REPRESENTATIVE_8 if thorough else REPRESENTATIVE_8[:5]
    for w in grid_worlds(3):
        if len(w) < (2 if thorough else 3):
            continue
        for t1 in reps:
            for t2 in reps:
                yield ("pair", (t1, t2), w)
    doms = list(tiny_domains(2))
    for da, db in itertools.product(doms, doms):
        for t in trees_by_depth(XY_REP, 1):
            yield ("setof_xy", t, (da, db))
            if thorough or t[0] in ("cmp", "not"):
                yield ("setof_yx", t, (da, db))
        yield ("setof_xy", None, (da, db))


def wspec_of(case):
    kind, t, w = case
    if kind == "ventity":
        return (("D", "VItem", w),)
    if kind == "vsetof":
        return (("DA", "VItem", w[0]), ("DB", "VItem", w[1]))
    if kind in ("entity", "pformthe"):
        kids = tuple((("p", GRID9[i][1]), ("q", GRID9[i][0]), ("flag", GRID9[i][0] > GRID9[i][1])) for i in w)
        rows = tuple(grid_row(GRID9[i][0], GRID9[i][1], "Dk", j) for j, i in enumerate(w))
        return (("Dk", "Item", kids), ("D", "Item", rows))
    return (("DA", "Item", w[0]), ("DB", "Item", w[1]))


def query_of(case, quant="the"):
    kind, t, w = case
    if kind == "pformthe":
        if quant == "an":
            return ("Q", "an", "entity", X, (("cmp", "eq", A(X, t[0]), L(t[1])),), VX)
        return ("Q", "the", "entity0", ("pform", "Item", "D", (), ((t[0], L(t[1])),)), (), ())
    conds = (t,) if t else ()
    if kind == "entity":
        return ("Q", quant, "entity", X, conds, VX)
    if kind == "ventity":
        return ("Q", quant, "entity", X, conds, (("x", "let", "VItem", "D"),))
    if kind == "vsetof":
        return ("Q", quant, "setof", (X, Y), conds, (("x", "let", "VItem", "DA"), ("y", "let", "VItem", "DB")))
    sel = (X, Y) if kind == "setof_xy" else (Y, X)
    return ("Q", quant, "setof", sel, conds, VARS3[:2])


def observe_the(q, world, inst):
    out = []
    try:
        obj, b = Q.build(q, world, inst)
    except Exception as e:
        return [exc_obs(e)] * 2
    for _ in range(2):
        try:
            r = obj.evaluate()
            if q[2] in ("entity", "entity0"):
                out.append(("value", (Q.norm(r),)) if not hasattr(r, "__next__") else ("not-a-value", type(r).__name__))
            else:
                out.append(("value", tuple(Q.norm(r[s]) for s in b.sel[q])))
        except MultipleSolutionFound:
            out.append(("Multiple",))
        except NoSolutionFound:
            out.append(("NoSolution",))
        except Exception as e:
            out.append(exc_obs(e))
    return out


def outcome_of(rows):
    n = len(set(rows))
    return ("NoSolution",) if n == 0 else (("value", rows[0]) if n == 1 else ("Multiple",))


def run_pair(case, inst):
    _, (t1, t2), w = case
    wspec = wspec_of(("entity", None, w))

    def body():
        from entity_query_language import symbolic_mode, the, an, entity
        world = build_world(wspec, inst)
        ref = Q.Ref(world, inst)
        b = Q.Builder(world, inst)
        with symbolic_mode():
            b.declare(VX)
            x = b.env["x"]
            q1, q2, qa = the(entity(x, b.cond(t1))), the(entity(x, b.cond(t2))), an(entity(x, b.cond(t2)))

        def run_the(q):
            try:
                return ("value", (Q.norm(q.evaluate()),))
            except MultipleSolutionFound:
                return ("Multiple",)
            except NoSolutionFound:
                return ("NoSolution",)
            except Exception as e:
                return exc_obs(e)
        obs = [run_the(q1), run_the(q2)]
        try:
            obs.append(("rows", [(Q.norm(r),) for r in qa.evaluate()]))
        except Exception as e:
            obs.append(exc_obs(e))
        obs += [run_the(q1), run_the(q2)]
        rows = {t: [(Q.norm(env["x"]),) for env in ref.solutions(("Q", "the", "entity", X, (t,), VX))] for t in (t1, t2)}
        return obs, rows, len(ref.domain(VX[0]))

    obs, rows, total = run_isolated(body)
    e1, e2 = outcome_of(rows[t1]), outcome_of(rows[t2])
    exp = [e1, e2, ("rows", rows[t2]), e1, e2]
    n1, n2 = len(set(rows[t1])), len(set(rows[t2]))
    res = {"ok": obs == exp, "nontrivial": n1 >= 2 and 0 < n2, "transitions": 5,
           "tags": ["kind=pair", f"first={'0' if n1 == 0 else ('1' if n1 == 1 else '>=2')}",
                    f"solutions={'0' if n2 == 0 else ('1' if n2 == 1 else '>=2')}"],
           "outcome": f"pair:{e1[0]}->{e2[0]}"}
    if obs != exp:
        i = next(i for i, (o, e) in enumerate(zip(obs, exp)) if o != e)
        res.update(sig=f"pair:step{i + 1}:{obs[i][0]}-instead-of-{exp[i][0]}/after-{e1[0]}", obs=obs, exp=exp)
    return res


def run_case(case, inst):
    if case[0] == "pair":
        return run_pair(case, inst)
    q = query_of(case)
    qa = query_of(case, "an")

    def body():
        world = build_world(wspec_of(case), inst)
        obs = observe_the(q, world, inst)
        ref = Q.Ref(world, inst)
        qo = qa if case[0] == "pformthe" else q        # the explicit form has the same solutions
        sols = ref.solutions(qo)
        sel = qo[3] if qo[2] == "setof" else (qo[3],)
        rows = [tuple(Q.norm(env[s[1]]) for s in sel) for env in sols]
        # what an(...) yields for the same description, built afresh on a fresh world of the same shape
        world2 = build_world(wspec_of(case), inst)
        try:
            obj, b = Q.build(qa, world2, inst)
            if qa[2] == "entity":
                an_rows = [(Q.norm(r),) for r in obj.evaluate()]
            else:
                an_rows = [tuple(Q.norm(r[s]) for s in b.sel[qa]) for r in obj.evaluate()]
        except Exception as e:
            an_rows = exc_obs(e)
        total = 1
        for v in qo[5]:
            total *= len(ref.domain(v))
        return obs, rows, an_rows, total

    obs, rows, an_rows, total = run_isolated(body)
    n = len(set(rows))       # rows are tuples of identity labels: value-equal twins are different solutions
    exp = ("NoSolution",) if n == 0 else (("value", rows[0]) if n == 1 else ("Multiple",))
    klass = "0" if n == 0 else ("1" if n == 1 else ">=2")
    res = {"ok": True, "nontrivial": 0 < n < total, "transitions": 3,
           "tags": [f"kind={case[0]}", f"solutions={klass}",
                    f"root={root_kind(case[1]) if case[1] and case[0] != 'pformthe' else 'none'}"],
           "outcome": f"{case[0]}:{klass}"}
    if isinstance(an_rows, list) and len(set(an_rows)) != n:
        # `an` itself disagrees with the oracle: that is C01/C02's finding, not C06's; judge `the` against `an`
        n2 = len(set(an_rows))
        exp = ("NoSolution",) if n2 == 0 else (("value", an_rows[0]) if n2 == 1 else ("Multiple",))
    for i, o in enumerate(obs):
        if o != exp:
            res.update(ok=False, sig=f"eval{i + 1}:{o[0] if o[0] != 'EXC' else 'exc:' + o[1]}-instead-of-{exp[0]}/{case[0]}",
                       obs=obs, exp=[exp, exp])
            break
    return res


def describe(case, inst):
    if case[0] == "pair":
        _, (t1, t2), w = case
        return (Q.up_world(wspec_of(("entity", None, w)), inst) + "\nwith symbolic_mode(): x = let(Item, D); "
                f"q1 = the(entity(x, {Q.up_cond(t1, inst)})); q2 = the(entity(x, {Q.up_cond(t2, inst)})); "
                f"qa = an(entity(x, {Q.up_cond(t2, inst)}))\n"
                "q1.evaluate(); q2.evaluate(); list(qa.evaluate()); q1.evaluate(); q2.evaluate()   # expected: each the "
                "outcome its own description has (value / NoSolutionFound / MultipleSolutionFound), qa all solutions")
    return (Q.up_world(wspec_of(case), inst) + "\n" + Q.up_query(query_of(case), inst)
            + "\nq.evaluate(); q.evaluate()   # expected (both): the unique solution of an(<same description>) / "
              "NoSolutionFound when none / MultipleSolutionFound when >=2")
