"""C09 - evaluation gives the same answer inside and outside a symbolic block.

Enumerated: ambient mode at evaluate() time in {none, symbolic_mode(), rule_mode()} x quantifier in {an, the, infer} x
condition kind in {comparator, @predicate function, Predicate subclass, HasType, method call} x head in {variable,
constructed instance in the descriptor, rule with Add, rule with Add + alternative} x solution count 0 / 1 / >=2 x small
datasets; `an` results consumed fully and one-by-one.
Oracle: the result under every ambient mode equals the Python oracle (hence the no-ambient result); user predicates
observe in_symbolic_mode() == False at call time; inferred values are real instances; the ambient mode is unchanged
after evaluate() returns.
"""
from __future__ import annotations

import eqlmc  # noqa: F401
from entity_query_language import (an, the, entity, let, symbolic_mode, rule_mode, Add, alternative, infer,
                                   MultipleSolutionFound, NoSolutionFound)
from entity_query_language.symbolic import in_symbolic_mode, SymbolicExpression

from .. import qast as Q
from .. import worlds as W
from ..common import X, A, L, exc_obs
from ..isolate import run_isolated
from ..worlds import build_world

ID = "C09"
ENGINE = "eqlmc-E1"
RULE = ("cases = (ambient mode, quantifier, condition kind, head, constant selecting the solution count, dataset); full "
        "product; non-trivial = ambient mode is not `none` and the expected outcome is not empty")
ASSUMPTIONS = ["queries are built in their own block; only evaluate() runs under the ambient mode"]

DOMS = {
    "d4": ((("p", 1), ("q", 1)), (("p", 2), ("q", 1)), (("p", 2), ("q", 2)), (("p", 3), ("q", 2))),
    "d2": ((("p", 2), ("q", 2)), (("p", 1), ("q", 1))),
}
OTHERS = ((("p", 1),), (("p", 2),))
VX = ("x", "let", "Item", "D")
CONDS = {
    "cmp": lambda k: ("cmp", "eq", A(X, "p"), L(k)),
    "pf": lambda k: ("pf", "p_eq", (X, L(k))),
    "pc": lambda k: ("pc", "PEq", (X, L(k))),
    "hastype": lambda k: ("and", ("pc", "HasType", (A(X, "ref"), "Item")), ("cmp", "eq", A(X, "p"), L(k))),
    "meth": lambda k: ("t", ("c", X, "is_p", (k,))),
    "notpf": lambda k: ("not", ("pf", "p_eq", (X, L(k)))),
    "pfnested": lambda k: ("pf", "p_eq_nested", (X, L(k))),
    "notpc": lambda k: ("not", ("pc", "PEq", (X, L(k)))),
    "pc_or_cmp": lambda k: ("or", ("pc", "PEq", (X, L(k))), ("cmp", "eq", A(X, "q"), L(5))),
}
HEADS = ("var", "ctor", "add", "addalt")
AMBIENTS = ("none", "query", "rule")


def bounds(tier):
    return {"ambient": list(AMBIENTS), "quantifiers": ["an", "the", "infer"], "conditions": list(CONDS),
            "heads": list(HEADS), "solution_counts": "0/1/>=2 via the constant"}


def cases(tier, inst):
    for dk in DOMS:
        for amb in AMBIENTS:
            for ck in CONDS:
                for k in (1, 2, 5):
                    for quant, head in (("an", "var"), ("the", "var"), ("infer", "ctor"), ("the", "ctor"),
                                        ("an", "add"), ("an", "addalt"), ("an", "ctor"), ("the", "add")):
                        for consume in (("list", "next") if quant != "the" else ("call",)):
                            if tier == "quick" and dk == "d2" and consume == "next":
                                continue
                            yield (amb, quant, ck, head, k, dk, consume)


def wspec_of(case):
    rows = DOMS[case[5]]
    # ref alternates between an Item and an Other, so HasType(x.ref, Item) is a real filter
    rows2 = tuple(r + (("ref", ("@", "DO" if i % 2 else "DI", i % 2)),) for i, r in enumerate(rows))
    return (("DI", "Item", ((("p", 9),), (("p", 8),))), ("DO", "Other", OTHERS), ("D", "Item", rows2))


def build_query(case, world, inst):
    amb, quant, ck, head, k, dk, consume = case
    cond = CONDS[ck](k)
    b = Q.Builder(world, inst)
    QF = {"an": an, "the": the, "infer": infer}[quant]
    if head == "var":
        with symbolic_mode():
            b.declare((VX,))
            return QF(entity(b.env["x"], b.cond(cond))), b
    if head == "ctor":
        with rule_mode():
            b.declare((VX,))
            x = b.env["x"]
            return QF(entity(W.Made(a=x, b=x.p), b.cond(cond))), b
    # rule with Add conclusion(s)
    with symbolic_mode():
        b.declare((VX,))
        x = b.env["x"]
        views = let(W.View)
        q = QF(entity(views, b.cond(cond)))
    with rule_mode(q):
        Add(views, W.Made(a=x, b=x.p, c=1))
        if head == "addalt":
            with alternative(x.q == inst.v(2)):
                Add(views, W.Made(a=x, b=x.p, c=2))
    return q, b


def expected(case, world, inst):
    amb, quant, ck, head, k, dk, consume = case
    ref = Q.Ref(world, inst)
    cond = CONDS[ck](k)
    dom = ref.domain(VX)
    if head == "addalt":
        vals = []
        for o in dom:
            if ref.holds(cond, {"x": o}):
                vals.append(("made", "Made", Q.norm(o), Q.norm(o.p), Q.norm(1)))
            elif o.q == inst.v(2):
                vals.append(("made", "Made", Q.norm(o), Q.norm(o.p), Q.norm(2)))
    else:
        sols = [o for o in dom if ref.holds(cond, {"x": o})]
        if head == "var":
            vals = [Q.norm(o) for o in sols]
        elif head == "ctor":
            vals = [("made", "Made", Q.norm(o), Q.norm(o.p), Q.norm(None)) for o in sols]
        else:
            vals = [("made", "Made", Q.norm(o), Q.norm(o.p), Q.norm(1)) for o in sols]
    if quant == "the":
        return ("NoSolution",) if not vals else (("value", vals[0]) if len(vals) == 1 else ("Multiple",))
    return ("rows", sorted(map(repr, vals)))


def run_case(case, inst):
    amb, quant, ck, head, k, dk, consume = case

    def body():
        world = build_world(wspec_of(case), inst)
        exp = expected(case, world, inst)
        try:
            q, b = build_query(case, world, inst)
        except Exception as e:
            return ("build", exc_obs(e)), exp, None
        W.LOG.reset()
        ctx = {"none": None, "query": symbolic_mode, "rule": rule_mode}[amb]
        notes = []

        def evaluate():
            if quant == "the":
                try:
                    r = q.evaluate()
                except MultipleSolutionFound:
                    return ("Multiple",)
                except NoSolutionFound:
                    return ("NoSolution",)
                if not isinstance(r, (W.Item, W.Made)):
                    notes.append(f"not-a-real-instance:{type(r).__name__}")
                    return ("value", ("symbolic", type(r).__name__))
                return ("value", Q.norm(r))
            if consume == "list":
                rows = list(q.evaluate())
            else:
                rows = []
                it = q.evaluate()
                while True:
                    try:
                        rows.append(next(it))
                    except StopIteration:
                        break
                    # between two results the ambient mode must be the block's mode (that is C08's business; here we
                    # only make sure evaluation itself is unaffected by being resumed under it)
            for r in rows:
                if not isinstance(r, (W.Item, W.Made)):
                    notes.append(f"not-a-real-instance:{type(r).__name__}")
            return ("rows", sorted(repr(Q.norm(r)) if isinstance(r, (W.Item, W.Made)) else f"symbolic:{type(r).__name__}"
                                   for r in rows))

        try:
            if ctx is None:
                got = evaluate()
                after = in_symbolic_mode()
            else:
                with ctx():
                    got = evaluate()
                    after = in_symbolic_mode()
                if not after:
                    notes.append("ambient-mode-lost-after-evaluate")
        except Exception as e:
            got = exc_obs(e)
        if W.LOG.symbolic_seen:
            notes.append(f"user-code-called-in-symbolic-mode:{W.LOG.symbolic_seen}")
        return got, exp, notes

    got, exp, notes = run_isolated(body)
    ok = got == exp and not notes
    res = {"ok": ok, "nontrivial": amb != "none" and exp not in (("rows", []), ("NoSolution",)), "transitions": 2,
           "tags": [f"ambient={amb}", f"quant={quant}", f"cond={ck}", f"head={head}", f"consume={consume}"],
           "outcome": f"{quant}:{exp[0]}:{len(exp[1]) if exp[0] == 'rows' else ''}"}
    if not ok:
        why = "mismatch" if got != exp else notes[0].split(":")[0]
        res.update(sig=f"{why}/ambient={amb}/quant={quant}/head={head}", obs=(got, notes), exp=(exp, []))
    return res


def describe(case, inst):
    amb, quant, ck, head, k, dk, consume = case
    cond = Q.up_cond(CONDS[ck](k), inst)
    if head == "var":
        build = f"with symbolic_mode(): x = let(Item, D); q = {quant}(entity(x, {cond}))"
    elif head == "ctor":
        build = f"with rule_mode(): x = let(Item, D); q = {quant}(entity(Made(a=x, b=x.p), {cond}))"
    else:
        build = (f"with symbolic_mode(): x = let(Item, D); q = {quant}(entity(views := let(View), {cond}))\n"
                 f"with rule_mode(q): Add(views, Made(a=x, b=x.p, c=1))"
                 + (f"\n    with alternative(x.q == {inst.v(2)}): Add(views, Made(a=x, b=x.p, c=2))" if head == "addalt" else ""))
    ev = "q.evaluate()" if quant == "the" else ("list(q.evaluate())" if consume == "list" else "it = q.evaluate(); next(it) ... until exhausted")
    amb_s = {"none": "", "query": "with symbolic_mode(): ", "rule": "with rule_mode(): "}[amb]
    return (Q.up_world(wspec_of(case), inst) + "\n" + build + f"\n{amb_s}result = {ev}"
            + "\n# expected: same as with no ambient block; predicates run concretely; real instances")
