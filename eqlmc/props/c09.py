"""C09 - evaluation gives the same answer inside and outside a symbolic block.

Enumerated: ambient mode at evaluate() time in {none, symbolic_mode(), rule_mode()} x quantifier in {an, the, infer} x
condition kind in {comparator, @predicate function, Predicate subclass, HasType, method call} x head in {variable,
constructed instance in the descriptor, rule with Add, rule with Add + alternative} x solution count 0 / 1 / >=2 x small
datasets; `an` results consumed fully and one-by-one.
Oracle: the result under every ambient mode equals the Python oracle (hence the no-ambient result); user predicates
observe in_symbolic_mode() == False at call time; inferred values are real instances; the ambient mode is unchanged
after evaluate() returns.
"""
from __future__ import annotations

import itertools

import eqlmc  # noqa: F401
from entity_query_language import (an, a, the, entity, set_of, let, symbolic_mode, rule_mode, Add, alternative, infer,
                                   MultipleSolutionFound, NoSolutionFound)
from entity_query_language.symbolic import in_symbolic_mode, SymbolicExpression

from .. import qast as Q
from .. import worlds as W
from ..common import X, A, L, exc_obs
from ..isolate import run_isolated
from ..worlds import build_world

ID = "C09"
ENGINE = "eqlmc-E1"
RULE = ("cases = (ambient mode, quantifier, condition kind, head, constant selecting the solution count, dataset); full "
        "product; non-trivial = ambient mode is not `none` and the expected outcome is not empty")
ASSUMPTIONS = ["queries are built in their own block; only evaluate() runs under the ambient mode"]

DOMS = {
    "d4": ((("p", 1), ("q", 1)), (("p", 2), ("q", 1)), (("p", 2), ("q", 2)), (("p", 3), ("q", 2))),
    "d2": ((("p", 2), ("q", 2)), (("p", 1), ("q", 1))),
}
OTHERS = ((("p", 1),), (("p", 2),))
VX = ("x", "let", "Item", "D")
CONDS = {
    "cmp": lambda k: ("cmp", "eq", A(X, "p"), L(k)),
    "pf": lambda k: ("pf", "p_eq", (X, L(k))),
    "pc": lambda k: ("pc", "PEq", (X, L(k))),
    "hastype": lambda k: ("and", ("pc", "HasType", (A(X, "ref"), "Item")), ("cmp", "eq", A(X, "p"), L(k))),
    "meth": lambda k: ("t", ("c", X, "is_p", (k,))),
    "notpf": lambda k: ("not", ("pf", "p_eq", (X, L(k)))),
    "pfnested": lambda k: ("pf", "p_eq_nested", (X, L(k))),
    "pfinner": lambda k: ("pf", "p_eq_inner", (X, L(k))),        # evaluates a query of its own, in a block of its own
    "notpc": lambda k: ("not", ("pc", "PEq", (X, L(k)))),
    "pc_or_cmp": lambda k: ("or", ("pc", "PEq", (X, L(k))), ("cmp", "eq", A(X, "q"), L(5))),
}
HEADS = ("var", "ctor", "add", "addalt")
AMBIENTS = ("none", "query", "rule")


def bounds(tier):
    return {"ambient": list(AMBIENTS), "quantifiers": ["an", "the", "infer"], "conditions": list(CONDS),
            "heads": list(HEADS), "solution_counts": "0/1/>=2 via the constant"}


def cases(tier, inst):
    for dk in DOMS:
        for amb in AMBIENTS:
            for ck in CONDS:
                for k in (1, 2, 5):
                    for quant, head in (("an", "var"), ("the", "var"), ("infer", "ctor"), ("the", "ctor"),
                                        ("an", "add"), ("an", "addalt"), ("an", "ctor"), ("the", "add")):
                        for consume in (("list", "next") if quant != "the" else ("call",)):
                            if tier == "quick" and dk == "d2" and consume == "next":
                                continue
                            yield (amb, quant, ck, head, k, dk, consume)
    # --- an iterator that is STARTED outside every block and continued inside one (and the other way round): every step
    #     of the evaluation runs as if no block was open, whatever was open when the iterator was created
    for amb in ("query", "rule", "query_q", "rule_q"):
        for ck in CONDS:
            for k in (1, 2, 5):
                for quant, head in (("an", "var"), ("infer", "ctor"), ("an", "add"), ("an", "addalt"), ("an", "ctor")):
                    for consume in ("out_in", "in_out"):
                        yield (amb, quant, ck, head, k, "d4", consume)
    # --- blocks entered WITH a query (`with symbolic_mode(q):`, `with rule_mode(q):`, q the evaluated query or another
    #     one): the open query block is not where expressions built by user code during the evaluation belong
    for amb in ("query_q", "rule_q", "rule_other"):
        for ck in CONDS:
            for k in (1, 2):
                for quant, head in (("an", "var"), ("the", "var"), ("infer", "ctor"), ("an", "add")):
                    yield (amb, quant, ck, head, k, "d4", "list" if quant != "the" else "call")
    # --- selected EXPRESSIONS (attribute, index, un-nested element, concatenated value) instead of a plain variable
    for amb in AMBIENTS:
        for ck in ("cmp", "pf", "pc"):
            for k in (1, 2):
                for quant, head in (("an", "selattr"), ("the", "selattr"), ("an", "selindex"), ("an", "selflat"),
                                    ("an", "selconc")):
                    for consume in (("list", "next") if quant != "the" else ("call",)):
                        yield (amb, quant, ck, head, k, "d4", consume)
    # --- the same evaluations while ANOTHER query's result iterator is open (advanced once, not closed): an evaluation
    #     in progress elsewhere must not change how this one is evaluated
    for amb in AMBIENTS:
        for ck in ("cmp", "pf", "pc", "notpc"):
            for k in (1, 2):
                for quant, head in (("an", "var"), ("the", "var"), ("infer", "ctor"), ("the", "ctor"), ("an", "add"),
                                    ("an", "addalt")):
                    for consume in (("list", "next") if quant != "the" else ("call",)):
                        yield (amb, quant, ck, head, k, "d4", consume, "open_iterator")
    # --- variables WITHOUT a domain described by field values (predicate form): their field constraints are built by the
    #     library itself, in a symbolic block of its own, during the FIRST evaluation - which here runs under the ambient
    #     mode; followed by a second evaluation under the same ambient mode
    for amb in AMBIENTS:
        for form in ND_FORMS:
            for k in (1, 2, 3):
                for quant in ("an", "the"):
                    for consume in (("list", "next") if quant != "the" else ("call",)):
                        yield ("nd", amb, form, k, quant, consume)


def wspec_of(case):
    case = case[:7]
    rows = DOMS[case[5]]
    # ref alternates between an Item and an Other, so HasType(x.ref, Item) is a real filter
    rows2 = tuple(r + (("ref", ("@", "DO" if i % 2 else "DI", i % 2)), ("t", (i + 1, 7) if i % 2 else (i + 1,)))
                  for i, r in enumerate(rows))
    return (("DI", "Item", ((("p", 9),), (("p", 8),))), ("DO", "Other", OTHERS), ("D", "Item", rows2))


def build_query(case, world, inst):
    amb, quant, ck, head, k, dk, consume = case[:7]
    cond = CONDS[ck](k)
    b = Q.Builder(world, inst)
    QF = {"an": an, "the": the, "infer": infer}[quant]
    if head == "var":
        with symbolic_mode():
            b.declare((VX,))
            return QF(entity(b.env["x"], b.cond(cond))), b
    if head.startswith("sel"):
        from entity_query_language import flatten, concatenate
        with symbolic_mode():
            b.declare((VX,))
            x = b.env["x"]
            if head == "selattr":
                return QF(entity(x.q, b.cond(cond))), b
            if head == "selindex":
                return QF(entity(x.t[0], b.cond(cond))), b
            if head == "selflat":
                e = flatten(x.t)
                b.selflat = (x, e)
                return QF(set_of([x, e], b.cond(cond))), b
            return QF(entity(concatenate(x.t))), b
    if head == "ctor":
        with rule_mode():
            b.declare((VX,))
            x = b.env["x"]
            return QF(entity(W.Made(a=x, b=x.p), b.cond(cond))), b
    # rule with Add conclusion(s)
    with symbolic_mode():
        b.declare((VX,))
        x = b.env["x"]
        views = let(W.View)
        q = QF(entity(views, b.cond(cond)))
    with rule_mode(q):
        Add(views, W.Made(a=x, b=x.p, c=1))
        if head == "addalt":
            with alternative(x.q == inst.v(2)):
                Add(views, W.Made(a=x, b=x.p, c=2))
    return q, b


def expected(case, world, inst):
    amb, quant, ck, head, k, dk, consume = case[:7]
    ref = Q.Ref(world, inst)
    cond = CONDS[ck](k)
    dom = ref.domain(VX)
    if head.startswith("sel"):
        sols = [o for o in dom if ref.holds(cond, {"x": o})]
        if head == "selattr":
            vals = [Q.norm(o.q) for o in sols]
        elif head == "selindex":
            vals = [Q.norm(o.t[0]) for o in sols]
        elif head == "selflat":
            vals = [(Q.norm(o), Q.norm(e)) for o in sols for e in o.t]
        else:
            vals = [Q.norm([e for o in dom for e in o.t])]
        if quant == "the":
            return ("NoSolution",) if not vals else (("value", vals[0]) if len(vals) == 1 else ("Multiple",))
        return ("rows", sorted(map(repr, vals)))
    if head == "addalt":
        vals = []
        for o in dom:
            if ref.holds(cond, {"x": o}):
                vals.append(("made", "Made", Q.norm(o), Q.norm(o.p), Q.norm(1)))
            elif o.q == inst.v(2):
                vals.append(("made", "Made", Q.norm(o), Q.norm(o.p), Q.norm(2)))
    else:
        sols = [o for o in dom if ref.holds(cond, {"x": o})]
        if head == "var":
            vals = [Q.norm(o) for o in sols]
        elif head == "ctor":
            vals = [("made", "Made", Q.norm(o), Q.norm(o.p), Q.norm(None)) for o in sols]
        else:
            vals = [("made", "Made", Q.norm(o), Q.norm(o.p), Q.norm(1)) for o in sols]
    if quant == "the":
        return ("NoSolution",) if not vals else (("value", vals[0]) if len(vals) == 1 else ("Multiple",))
    return ("rows", sorted(map(repr, vals)))


# ---------------------------------------------------------------- no-domain predicate-form programs
ND_FORMS = ("rule", "rule_pc", "rule_pf", "query_pc", "query_join", "rule_nested")
_o = lambda i: ("@", "DO", i)      # noqa: E731
ND_DO = ((("p", 1), ("q", 2)), (("p", 2), ("q", 2)), (("p", 1), ("q", 1)), (("p", 2), ("q", 1)), (("p", 3), ("q", 2)))
ND_DH = ((("inner", _o(0)), ("n", 1)), (("inner", _o(1)), ("n", 2)), (("inner", _o(4)), ("n", 1)))
ND_DC = ((("a", _o(0)), ("b", _o(2))), (("a", _o(1)), ("b", _o(3))), (("a", _o(4)), ("b", _o(3))), (("a", _o(4)), ("b", _o(2))))
ND_WSPEC = (("DO", "Other", ND_DO), ("DH", "Holder", ND_DH), ("DC", "Made2", ND_DC))


def nd_build(form, k, quant, inst):
    """the query, built in its own block (its no-domain variables are not evaluated here)"""
    two, one, kk = inst.v(2), inst.v(1), inst.v(k)
    QF = {"an": an, "the": the}[quant]
    if form in ("rule", "rule_pc", "rule_pf", "rule_nested"):
        QR = infer if quant == "an" else the
        with rule_mode():
            ro, ri = W.Other(q=two), W.Other(q=one)
            conds = [W.Holder(inner=ro, n=one), W.Made2(a=ro, b=ri)]
            if form == "rule_pc":
                conds.append(W.PEq(x=ri, k=kk))
            if form == "rule_pf":
                conds.append(W.p_eq(ri, kk))
            if form == "rule_nested":
                return QR(W.Made(a=a(ro), b=a(ri), c=W.Holder(inner=ri, n=kk)), *conds[:1])
            return QR(W.Made(a=a(ro), b=a(ri)), *conds)
    with symbolic_mode():
        o = W.Other(q=two)
        if form == "query_pc":
            return QF(entity(o, W.PEq(x=o, k=kk)))
        h = W.Holder(inner=o, n=kk)
        return QF(set_of([o, h]))


def nd_expected(form, k, world, inst):
    two, one, kk = inst.v(2), inst.v(1), inst.v(k)
    DO, DH, DC = world["DO"], world["DH"], world["DC"]
    rows = []
    if form in ("rule", "rule_pc", "rule_pf"):
        for ro in DO:
            for ri in DO:
                if ro.q == two and ri.q == one and any(h.inner is ro and h.n == one for h in DH) \
                        and any(m.a is ro and m.b is ri for m in DC):
                    if form == "rule" or ri.p == kk:
                        rows.append(("made", "Made", Q.norm(ro), Q.norm(ri), Q.norm(None)))
    elif form == "rule_nested":
        for ro in DO:
            for ri in DO:
                if ro.q == two and ri.q == one and any(h.inner is ro and h.n == one for h in DH):
                    for h2 in DH:
                        if h2.inner is ri and h2.n == kk:
                            rows.append(("made", "Made", Q.norm(ro), Q.norm(ri), Q.norm(h2)))
    elif form == "query_pc":
        rows = [Q.norm(o) for o in DO if o.q == two and o.p == kk]
    else:
        rows = [("row", Q.norm(o), Q.norm(h)) for o in DO for h in DH if o.q == two and h.inner is o and h.n == kk]
    return rows


def nd_norm(form, r):
    if form == "query_join":
        try:
            vals = list(r.values())
            return ("row",) + tuple(Q.norm(v) for v in vals)
        except Exception:
            return ("symbolic", type(r).__name__)
    if not isinstance(r, (W.Other, W.Made)):
        return ("symbolic", type(r).__name__)
    return Q.norm(r)


def run_nd(case, inst):
    _, amb, form, k, quant, consume = case

    def body():
        world = build_world(ND_WSPEC, inst)
        rows = nd_expected(form, k, world, inst)
        if quant == "the":
            exp = ("NoSolution",) if not rows else (("value", rows[0]) if len(rows) == 1 else ("Multiple",))
        else:
            exp = ("rows", sorted(map(repr, rows)))
        try:
            q = nd_build(form, k, quant, inst)
        except Exception as e:
            return ("build", exc_obs(e)), exp, None
        W.LOG.reset()
        notes = []

        def evaluate():
            if quant == "the":
                try:
                    r = q.evaluate()
                except MultipleSolutionFound:
                    return ("Multiple",)
                except NoSolutionFound:
                    return ("NoSolution",)
                return ("value", nd_norm(form, r))
            if consume == "list":
                got = list(q.evaluate())
            else:
                got, it = [], q.evaluate()
                while True:
                    try:
                        got.append(next(it))
                    except StopIteration:
                        break
            return ("rows", sorted(repr(nd_norm(form, r)) for r in got))

        ctx = {"none": None, "query": symbolic_mode, "rule": rule_mode}[amb]
        try:
            if ctx is None:
                got = [evaluate(), evaluate()]
            else:
                with ctx():
                    got = [evaluate()]
                    if not in_symbolic_mode():
                        notes.append("ambient-mode-lost-after-evaluate")
                    got.append(evaluate())
        except Exception as e:
            got = exc_obs(e)
        if W.LOG.symbolic_seen:
            notes.append(f"user-code-called-in-symbolic-mode:{W.LOG.symbolic_seen}")
        return got, [exp, exp], notes

    got, exp, notes = run_isolated(body)
    ok = got == exp and not notes
    res = {"ok": ok, "nontrivial": amb != "none" and exp[0] not in (("rows", []), ("NoSolution",)), "transitions": 2,
           "tags": [f"ambient={amb}", f"quant={quant}", f"nd_form={form}", f"consume={consume}"],
           "outcome": f"nd:{quant}:{exp[0][0]}:{len(exp[0][1]) if exp[0][0] == 'rows' else ''}"}
    if not ok:
        why = "mismatch" if got != exp else notes[0].split(":")[0]
        res.update(sig=f"{why}/ambient={amb}/quant={quant}/nd={form}", obs=(got, notes), exp=(exp, []))
    return res


def describe_nd(case, inst):
    _, amb, form, k, quant, consume = case
    two, one, kk = inst.v(2), inst.v(1), inst.v(k)
    QR = "infer" if quant == "an" else "the"
    progs = {
        "rule": f"with rule_mode(): q = {QR}(Made(a=a(ro := Other(q={two})), b=a(ri := Other(q={one}))), Holder(inner=ro, n={one}), Made2(a=ro, b=ri))",
        "rule_pc": f"with rule_mode(): q = {QR}(Made(a=a(ro := Other(q={two})), b=a(ri := Other(q={one}))), Holder(inner=ro, n={one}), Made2(a=ro, b=ri), PEq(x=ri, k={kk}))",
        "rule_pf": f"with rule_mode(): q = {QR}(Made(a=a(ro := Other(q={two})), b=a(ri := Other(q={one}))), Holder(inner=ro, n={one}), Made2(a=ro, b=ri), p_eq(ri, {kk}))",
        "rule_nested": f"with rule_mode(): q = {QR}(Made(a=a(ro := Other(q={two})), b=a(ri := Other(q={one})), c=Holder(inner=ri, n={kk})), Holder(inner=ro, n={one}))",
        "query_pc": f"with symbolic_mode(): o = Other(q={two}); q = {quant}(entity(o, PEq(x=o, k={kk})))",
        "query_join": f"with symbolic_mode(): o = Other(q={two}); h = Holder(inner=o, n={kk}); q = {quant}(set_of([o, h]))",
    }
    amb_s = {"none": "", "query": "with symbolic_mode(): ", "rule": "with rule_mode(): "}[amb]
    ev = "q.evaluate()" if quant == "the" else ("list(q.evaluate())" if consume == "list" else "next(it) ... until exhausted")
    return (Q.up_world(ND_WSPEC, inst) + "\n# (all objects constructed outside any block: they are in the registry)\n"
            + progs[form] + f"\n{amb_s}r1 = {ev}; r2 = {ev}"
            + "\n# expected: both evaluations as with no ambient block; predicates run concretely; real instances")


def run_case(case, inst):
    if case[0] == "nd":
        return run_nd(case, inst)
    open_iterator = len(case) == 8
    amb, quant, ck, head, k, dk, consume = case[:7]

    def body():
        world = build_world(wspec_of(case), inst)
        exp = expected(case, world, inst)
        try:
            q, b = build_query(case, world, inst)
        except Exception as e:
            return ("build", exc_obs(e)), exp, None
        kept = []
        if open_iterator:
            with symbolic_mode():
                z = let(W.Item, world["DI"])
                q0 = an(entity(z, z.p >= 1))
            it0 = q0.evaluate()
            next(it0)
            kept.append(it0)
        W.LOG.reset()
        other = None
        if amb == "rule_other":
            other, _ = build_query(case, build_world(wspec_of(case), inst), inst)
        ctx = {"none": None, "query": symbolic_mode, "rule": rule_mode, "query_q": lambda: symbolic_mode(q),
               "rule_q": lambda: rule_mode(q), "rule_other": lambda: rule_mode(other)}[amb]
        notes = []

        def evaluate():
            if quant == "the":
                try:
                    r = q.evaluate()
                except MultipleSolutionFound:
                    return ("Multiple",)
                except NoSolutionFound:
                    return ("NoSolution",)
                if head.startswith("sel"):
                    return ("value", Q.norm(r)) if not isinstance(r, SymbolicExpression) else ("value", ("symbolic", type(r).__name__))
                if not isinstance(r, (W.Item, W.Made)):
                    notes.append(f"not-a-real-instance:{type(r).__name__}")
                    return ("value", ("symbolic", type(r).__name__))
                return ("value", Q.norm(r))
            if consume == "list":
                rows = list(q.evaluate())
            elif consume in ("out_in", "in_out"):
                rows = MIXED["rows"]
            else:
                rows = []
                it = q.evaluate()
                while True:
                    try:
                        rows.append(next(it))
                    except StopIteration:
                        break
                    # between two results the ambient mode must be the block's mode (that is C08's business; here we
                    # only make sure evaluation itself is unaffected by being resumed under it)
            if head == "selflat":
                return ("rows", sorted(repr((Q.norm(r[b.selflat[0]]), Q.norm(r[b.selflat[1]]))) for r in rows))
            if head.startswith("sel"):
                return ("rows", sorted(repr(Q.norm(list(r) if head == "selconc" else r)) for r in rows))
            for r in rows:
                if not isinstance(r, (W.Item, W.Made)):
                    notes.append(f"not-a-real-instance:{type(r).__name__}")
            return ("rows", sorted(repr(Q.norm(r)) if isinstance(r, (W.Item, W.Made)) else f"symbolic:{type(r).__name__}"
                                   for r in rows))

        MIXED = {}
        try:
            if consume in ("out_in", "in_out"):
                rows = MIXED["rows"] = []
                if consume == "out_in":
                    it = q.evaluate()
                    rows.extend(itertools.islice(it, 1))           # created and advanced once outside every block
                    with ctx():
                        rows.extend(it)                            # ... continued inside the block
                        after = in_symbolic_mode()
                else:
                    with ctx():
                        it = q.evaluate()
                        rows.extend(itertools.islice(it, 1))
                        after = in_symbolic_mode()
                    rows.extend(it)                                # ... continued outside
                got = evaluate()
                if not after:
                    notes.append("ambient-mode-lost-after-evaluate")
            elif ctx is None:
                got = evaluate()
                after = in_symbolic_mode()
            else:
                with ctx():
                    got = evaluate()
                    after = in_symbolic_mode()
                if not after:
                    notes.append("ambient-mode-lost-after-evaluate")
        except Exception as e:
            got = exc_obs(e)
        if W.LOG.symbolic_seen:
            notes.append(f"user-code-called-in-symbolic-mode:{W.LOG.symbolic_seen}")
        return got, exp, notes

    got, exp, notes = run_isolated(body)
    ok = got == exp and not notes
    res = {"ok": ok, "nontrivial": amb != "none" and exp not in (("rows", []), ("NoSolution",)), "transitions": 2,
           "tags": [f"ambient={amb}", f"quant={quant}", f"cond={ck}", f"head={head}", f"consume={consume}"]
                   + (["another_iterator_open"] if open_iterator else []),
           "outcome": f"{quant}:{exp[0]}:{len(exp[1]) if exp[0] == 'rows' else ''}"}
    if not ok:
        why = "mismatch" if got != exp else notes[0].split(":")[0]
        res.update(sig=f"{why}/ambient={amb}/quant={quant}/head={head}" + ("/open-iterator" if open_iterator else ""),
                   obs=(got, notes), exp=(exp, []))
    return res


def describe(case, inst):
    if case[0] == "nd":
        return describe_nd(case, inst)
    amb, quant, ck, head, k, dk, consume = case[:7]
    cond = Q.up_cond(CONDS[ck](k), inst)
    if head.startswith("sel"):
        sel = {"selattr": f"entity(x.q, {cond})", "selindex": f"entity(x.t[0], {cond})",
               "selflat": f"set_of([x, flatten(x.t)], {cond})", "selconc": "entity(concatenate(x.t))"}[head]
        build = f"with symbolic_mode(): x = let(Item, D); q = {quant}({sel})"
    elif head == "var":
        build = f"with symbolic_mode(): x = let(Item, D); q = {quant}(entity(x, {cond}))"
    elif head == "ctor":
        build = f"with rule_mode(): x = let(Item, D); q = {quant}(entity(Made(a=x, b=x.p), {cond}))"
    else:
        build = (f"with symbolic_mode(): x = let(Item, D); q = {quant}(entity(views := let(View), {cond}))\n"
                 f"with rule_mode(q): Add(views, Made(a=x, b=x.p, c=1))"
                 + (f"\n    with alternative(x.q == {inst.v(2)}): Add(views, Made(a=x, b=x.p, c=2))" if head == "addalt" else ""))
    ev = "q.evaluate()" if quant == "the" else ("list(q.evaluate())" if consume == "list" else
                                                 "it = q.evaluate(); next(it) OUTSIDE every block, the rest of it inside the block" if consume == "out_in" else
                                                 "it = q.evaluate(); next(it) inside the block, the rest of it OUTSIDE" if consume == "in_out" else
                                                 "it = q.evaluate(); next(it) ... until exhausted")
    amb_s = {"none": "", "query": "with symbolic_mode(): ", "rule": "with rule_mode(): ", "query_q": "with symbolic_mode(q): ",
             "rule_q": "with rule_mode(q): ", "rule_other": "with rule_mode(<the same query built once more>): "}[amb]
    pre = ("\nwith symbolic_mode(): z = let(Item, DI); q0 = an(entity(z, z.p >= 1))\nit0 = q0.evaluate(); next(it0)   # stays open"
           if len(case) == 8 else "")
    return (Q.up_world(wspec_of(case), inst) + "\n" + build + pre + f"\n{amb_s}result = {ev}"
            + "\n# expected: same as with no ambient block; predicates run concretely; real instances")
