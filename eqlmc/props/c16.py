"""C16 - flatten behaves as UNNEST: one row per inner element, correlated with its parent.

Enumerated: parent domains of 1..3 parents whose inner collections range over all tuples of length <=2 (thorough: <=3 for
two parents) over a 3-element alphabet (empty, overlapping and repeated elements occur) plus scalar (non-iterable)
inner values; selection in {element, (parent, element), (element, parent), (parent, element, parent.p)}; extra condition
in {none, on the element, on the parent, both, element == constant, disjunction}; caching on/off; first evaluation and
re-evaluation of the same query object.
Oracle: [(p, x) for p in parents for x in as_list(p.items) if cond] - compared as a multiset when the parent and the
element are both selected, as a set otherwise.
"""
from __future__ import annotations

import itertools

from .. import qast as Q
from ..common import X, A, L, eval_rows, diff_rows, row_labels, is_exc, exc_obs
from ..isolate import run_isolated
from ..worlds import build_world

ID = "C16"
ENGINE = "eqlmc-E1"
RULE = ("cases = (inner collections of the parents, selection, extra condition, caching, evaluation number), all "
        "combinations; non-trivial = some but not all (parent, element) pairs are expected"
        ' Wave 7: falsy scalar inner values (0, None, False, 0.0).')
ASSUMPTIONS = ["elements of collections are non-falsy integers (falsy elements: C19), scalar inner values include the "
               "falsy ones; strings are not used as collections"]

E = ("fl", A(X, "items"))
SELS = {"e": (E,), "pe": (X, E), "ep": (E, X), "pep": (X, E, A(X, "p"))}
CONDS = {
    "none": None,
    "elem": ("cmp", "ge", E, L(2)),
    "parent": ("cmp", "eq", A(X, "p"), L(1)),
    "both": ("and", ("cmp", "eq", A(X, "p"), L(1)), ("cmp", "ne", E, L(1))),
    "const": ("cmp", "eq", E, L(2)),
    "or": ("or", ("cmp", "eq", E, L(3)), ("cmp", "eq", A(X, "p"), L(2))),
    "notelem": ("not", ("cmp", "eq", E, L(1))),
    "elem_vs_parent": ("cmp", "gt", E, A(X, "p")),
    # a condition on an UNRELATED variable (two values) first, then a disjunction whose first side constrains the parent
    # only: the disjunction's rows are asked for once per value of the unrelated variable
    "unrel_or": ("and", ("cmp", "ge", A(("v", "z"), "p"), L(1)), ("or", ("cmp", "eq", A(X, "p"), L(2)), ("cmp", "ge", E, L(2)))),
    "unrel_or2": ("and", ("cmp", "ge", A(("v", "z"), "p"), L(1)), ("or", ("cmp", "eq", A(X, "p"), L(1)), ("cmp", "eq", E, L(3)))),
}
VX = ("x", "let", "Item", "P")
VZ = ("z", "let", "Item", "U")
# parents whose elements are parents of the same domain (mutual references: the same objects can be bound to the parent
# variable and to the element)
EP = A(E, "p")
OCONDS = {
    "none": None,
    "both": ("and", ("cmp", "ge", EP, L(1)), ("cmp", "ge", A(X, "p"), L(1))),
    "or": ("or", ("cmp", "eq", EP, L(1)), ("cmp", "eq", A(X, "p"), L(2))),
    "elem_vs_parent": ("cmp", "ne", EP, A(X, "p")),
    "three": ("and", ("and", ("cmp", "ge", EP, L(1)), ("cmp", "le", A(X, "p"), L(2))), ("cmp", "le", EP, L(2))),
}


def inner_values(max_len, scalars=True):
    out = []
    for n in range(0, max_len + 1):
        out += list(itertools.product((1, 2, 3), repeat=n))
    if scalars:
        out += [1, 3]
    return out


def bounds(tier):
    return {"parents": "1..3", "inner_len": 2 if tier == "quick" else 3, "alphabet": 3, "selections": list(SELS),
            "conditions": list(CONDS), "configs": ["cache on/off", "evaluation 1/2"]}


def worlds(tier):
    inn2 = inner_values(2)
    for n in (1, 2):
        for combo in itertools.product(inn2, repeat=n):
            yield combo
    # one object listed three / four times in one collection (every occurrence is a row)
    many = [(1, 1, 1), (2, 2, 2, 2), (3, 1, 3, 3)]
    for m in many:
        yield (m,)
        for other in ((), (1,), (2, 3), 3, (1, 1, 1)):
            yield (m, other)
            yield (other, m)
    if tier == "quick":
        small = [(), (1,), (1, 1), (1, 2), (2, 3), 3]
        for combo in itertools.product(small, repeat=3):
            yield combo
    else:
        for combo in itertools.product(inner_values(2, scalars=False) + [3], repeat=3):
            yield combo
        inn3 = [v for v in inner_values(3) if isinstance(v, tuple) and len(v) == 3]
        for combo in itertools.product(inn3, inner_values(3)):
            yield combo


def subparent_cases(tier):
    """the flattened expression sits on a SUB-QUERY (with a disjunctive / negated / plain condition of its own); the
    element is only selected, or selected next to the sub-query, or conditioned; evaluated FOUR times"""
    small = [(), (1,), (1, 2), (2, 3), 3, (1, 1)]
    for combo in itertools.product(small, repeat=3):
        if tier == "quick" and hash(combo) % 2:
            continue
        for pk in SUBPARENTS:
            for sk in ("e", "ep_sub", "e_cond", "e_or", "e_notand"):
                yield (("sub", pk) + combo, sk, "none", True)


SUBPARENTS = {
    "or": ("or", ("cmp", "eq", A(X, "q"), L(1)), ("cmp", "eq", A(X, "p"), L(2))),
    "notand": ("not", ("and", ("cmp", "ne", A(X, "q"), L(1)), ("cmp", "ne", A(X, "p"), L(2)))),
    "plain": ("cmp", "ge", A(X, "q"), L(2)),
}


FALSY = {"f:0": 0, "f:None": None, "f:False": False, "f:0.0": 0.0}     # (written as keys: 0 == False == 0.0 as case keys)
FALSY_SCALARS = tuple(FALSY)
FALSY_CONDS = ("none", "parent", "const", "or")
      # (no ordering comparisons: None is not ordered)


def falsy_scalar_cases(tier):
    """a non-iterable inner value counts as ONE element - also when it is falsy (0, None, False, 0.0)"""
    others = [(), (1,), (2, 0), 3]
    for f in FALSY_SCALARS:
        combos = [(f,)] + [(f, o) for o in others] + [(o, f) for o in others] + [(f, g) for g in FALSY_SCALARS]
        if tier == "thorough":
            combos += [(o, f, o2) for o in others for o2 in others]
        for combo in combos:
            for sk in SELS:
                for ck in FALSY_CONDS:
                    for caching in (True, False):
                        yield (combo, sk, ck, caching)


# wave 9 (C16-agent9): an inner value that is iterable WITHOUT being a collections.abc.Collection (only __iter__)
ITERONLY = {"it:": ("iter!",), "it:3": ("iter!", 3), "it:12": ("iter!", 1, 2), "it:22": ("iter!", 2, 2)}


def iteronly_cases(tier):
    others = [(), (1,), (2, 0), 3]
    for f in ITERONLY:
        combos = [(f,)] + [(f, o) for o in others] + [(o, f) for o in others] + [(f, g) for g in ITERONLY]
        if tier == "thorough":
            combos += [(o, f, o2) for o in others for o2 in others]
        for combo in combos:
            for sk in SELS:
                for ck in FALSY_CONDS:
                    for caching in (True, False):
                        yield (combo, sk, ck, caching)


def cases(tier, inst):
    yield from iteronly_cases(tier)
    yield from friend_cases(tier)
    yield from subparent_cases(tier)
    yield from falsy_scalar_cases(tier)
    seen = set()
    for combo in worlds(tier):
        if combo in seen:
            continue
        seen.add(combo)
        for sk in SELS:
            for ck in CONDS:
                if tier == "quick" and len(combo) == 3 and (sk == "pep" or ck in ("notelem", "elem_vs_parent")):
                    continue
                for caching in (True, False):
                    yield (combo, sk, ck, caching)


def friend_cases(tier):
    inner = [()] + [(i,) for i in range(3)] + [(i, j) for i in range(3) for j in range(3) if i != j]
    for combo in itertools.product(inner, repeat=3):
        if tier == "quick" and sum(len(i) for i in combo) > 4:
            continue
        for sk in ("pe", "ep", "e"):
            for ck in OCONDS:
                for caching in ((True, False) if ck in ("both", "or") else (True,)):
                    yield (("obj",) + combo, sk, ck, caching)


def wspec_of(combo):
    if combo and combo[0] == "sub":
        return (("P", "Item", tuple((("p", i % 2 + 1), ("q", (1, 2, 3)[i % 3]), ("items", inner))
                                    for i, inner in enumerate(combo[2:]))),)
    if combo and combo[0] == "obj":
        return (("P", "Item", tuple((("p", i % 2 + 1), ("items", ())) for i in range(len(combo) - 1))),)
    return (("P", "Item", tuple((("p", i % 2 + 1), ("items", ("raw!", FALSY[inner]) if inner in FALSY else ITERONLY[inner] if inner in ITERONLY else inner))
                                for i, inner in enumerate(combo))),
            ("U", "Item", ((("p", 1),), (("p", 2),))))


def query_of(case):
    combo, sk, ck, caching = case
    if combo and combo[0] == "sub":
        parent = ("sub1", ("Q", "an", "entity", X, (SUBPARENTS[combo[1]],), ()))
        e = ("fl", A(parent, "items"))
        if sk == "e":
            return ("Q", "an", "setof", (e,), (), (VX,))
        if sk == "ep_sub":
            return ("Q", "an", "setof", (e, parent), (), (VX,))
        if sk == "e_or":        # a disjunction whose first side (about the sub-query) is false everywhere: the false rows of
            # the comparison bind the sub-query to its non-solutions, whose elements are no elements of the result
            return ("Q", "an", "setof", (e,), (("or", ("cmp", "gt", A(parent, "p"), L(9)), ("cmp", "ge", e, L(1))),), (VX,))
        if sk == "e_notand":
            return ("Q", "an", "setof", (e,), (("not", ("and", ("cmp", "le", A(parent, "p"), L(9)), ("cmp", "lt", e, L(1)))),), (VX,))
        return ("Q", "an", "setof", (e,), (("cmp", "ge", e, L(1)),), (VX,))
    c = (OCONDS if combo and combo[0] == "obj" else CONDS)[ck]
    return ("Q", "an", "setof", SELS[sk], (c,) if c else (), (VX, VZ) if ck.startswith("unrel") else (VX,))


def run_case(case, inst):
    combo, sk, ck, caching = case
    q = query_of(case)

    def body():
        world = build_world(wspec_of(combo), inst)
        if combo and combo[0] == "obj":
            for po, inner in zip(world["P"], combo[1:]):
                po.items = tuple(world["P"][j] for j in inner)
        ref = Q.Ref(world, inst)
        if combo and combo[0] == "sub":
            parents = [o for o in world["P"] if ref.holds(SUBPARENTS[combo[1]], {"x": o})]
            pairs = [(po, el) for po in parents for el in (po.items if isinstance(po.items, tuple) else (po.items,))]
            exp = [(el, po) if sk == "ep_sub" else (el,) for po, el in pairs]
        else:
            exp = [tuple(ref.value(s, env) for s in q[3]) for env in ref.solutions(q)]
        total = sum(len(i) if isinstance(i, tuple) else len(ITERONLY[i]) - 1 if i in ITERONLY else 1
                    for i in combo if not isinstance(i, str) or i in FALSY or i in ITERONLY)
        try:
            obj, b = Q.build(q, world, inst)
            sel = b.sel[q]
            got1 = [tuple(r[s] for s in sel) for r in obj.evaluate()]
        except Exception as e:
            return exc_obs(e), None, exp, total
        try:
            got2 = [tuple(r[s] for s in sel) for r in obj.evaluate()]
            if combo and combo[0] == "sub":
                # two more evaluations: what the second one leaves behind shows in the third
                got3 = [tuple(r[s] for s in sel) for r in obj.evaluate()]
                got4 = [tuple(r[s] for s in sel) for r in obj.evaluate()]
                if diff_rows(got2, exp, count=sk == "ep_sub") is None:
                    got2 = got3 if diff_rows(got3, exp, count=sk == "ep_sub") is not None else got4
        except Exception as e:
            got2 = exc_obs(e)
        return got1, got2, exp, total

    got1, got2, exp, total = run_isolated(body, caching=caching)
    multiset = sk not in ("e", "e_cond", "e_or", "e_notand") and not ck.startswith("unrel")      # (an unselected variable: the result set)
    res = {"ok": True, "nontrivial": 0 < len(exp) < total, "transitions": 2,
           "tags": [f"sel={sk}", f"cond={ck}", f"caching={'on' if caching else 'off'}", f"parents={len(combo)}"]
                   + (["repeated_in_one_collection"] if any(isinstance(i, tuple) and len(set(i)) < len(i) for i in combo) else [])
                   + (["scalar_inner"] if any(not isinstance(i, tuple) for i in combo) else [])
                   + (["falsy_scalar_inner"] if any(isinstance(i, str) and i in FALSY for i in combo) else []),
           "outcome": str(len(exp))}
    for name, got in (("eval1", got1), ("eval2", got2)):
        d = diff_rows(got, exp, count=multiset)
        if d is not None:
            rep = any(isinstance(i, tuple) and len(set(i)) < len(i) for i in combo)
            res.update(ok=False, sig=f"{name}:{d}/sel={sk}/cond={ck}/cache={'on' if caching else 'off'}"
                                     + ("/rep" if rep else ""),
                       obs=(name, row_labels(got)), exp=row_labels(exp))
            break
    return res


def describe(case, inst):
    combo, sk, ck, caching = case
    friends = ("\n" + "; ".join(f"P[{i}].items = ({', '.join(f'P[{j}]' for j in inner)}{',' if len(inner) == 1 else ''})"
                                for i, inner in enumerate(combo[1:])) if combo and combo[0] == "obj" else "")
    return (("enable_caching()" if caching else "disable_caching()") + "\n" + Q.up_world(wspec_of(combo), inst) + friends + "\n"
            + Q.up_query(query_of(case), inst).replace("flatten(x.items)", "e").replace("q = ", "e = flatten(x.items); q = ", 1)
            + "\nrows1 = list(q.evaluate()); rows2 = list(q.evaluate())"
              "   # expected both: [(p, el) for p in P for el in as_list(p.items) if cond]")
