"""C11 - rule inference builds one instance per satisfying binding, from that binding.

Enumerated: heads Made(f1=e1, ...) with e in {variable, attribute of a variable, method call, constant}, keyword and
positional, 1-3 fields, every rule variable mentioned; bodies = none / every tree of depth<=1 (thorough: 2) over the
join vocabulary (disjunctions, negations and zero-solution bodies included); rich world and every tiny world; plus
nested constructor terms, which by design match instances already in the registry (the case populates it).
Oracle: multiset of (type, fields by identity): one per satisfying assignment, field objects are the domain objects.
"""
from __future__ import annotations

import itertools

from .. import qast as Q
from ..common import (X, Y, Z, A, L, leaves_xy, leaves_single, XY_REP, rich_world, VARS3, tiny_domains, grid_world,
                      diff_rows, row_labels, is_exc, root_kind, exc_obs)
from ..isolate import run_isolated
from ..space import trees_by_depth
from ..worlds import build_world
from .. import worlds as W

ID = "C11"
ENGINE = "eqlmc-E1"
RULE = ("cases = (rule head, rule body tree or none, variables, world); all heads x all body trees of depth<=d on the "
        "rich world, representative trees on every tiny world; non-trivial = at least one and not all assignments "
        "satisfy the body"
        ' Wave 7: positional heads of a class with an inherited keyword-only field declared first and of a dataclass whose hand-written __init__ reorders the parameters.')
ASSUMPTIONS = ["registry cleared before each case (as the repository's test fixture does)",
               "a constructed instance is identified by its type and the identity of its field values"]

RICH = rich_world()
GRID = grid_world("D")
VX = (("x", "let", "Item", "D"),)
HEADS_XY = [
    ("new", "Made", (), (("a", X), ("b", Y))),
    ("new", "Made", (), (("b", X), ("a", Y))),
    ("new", "Made", (), (("a", A(X, "p")), ("b", Y), ("c", X))),
    ("new", "Made", (), (("a", X), ("b", A(Y, "q")), ("c", L(5)))),
    ("new", "Made", (), (("a", A(X, "p")), ("b", A(Y, "p")), ("c", A(X, "q")))),
    ("new", "Made", (X, Y), ()),
    ("new", "Made", (A(X, "p"), Y), (("c", X),)),
    ("new", "Made2", (), (("a", ("c", X, "get_p", ())), ("b", A(Y, "ref")))),
    # positional arguments of a class with an INHERITED keyword-only field that is declared before the positional ones, and
    # of a dataclass whose hand-written __init__ takes its parameters in another order than the fields are declared
    ("new", "Part", (A(X, "p"), Y), ()),
    ("new", "Part", (X, Y), (("world", A(X, "q")),)),
    ("new", "Part", (X,), (("v", A(Y, "p")),)),
    ("new", "Rev", (X, Y), ()),
    ("new", "Rev", (A(X, "p"),), (("k", Y),)),
]
HEADS_X = [
    ("new", "Made", (), (("a", X),)),
    ("new", "Made", (), (("a", A(X, "p")), ("b", X))),
    ("new", "Made", (), (("a", X), ("b", L(5)))),
    ("new", "Made", (X,), ()),
    ("new", "Made", (A(X, "p"), A(X, "q"), X), ()),
    ("new", "Made2", (), (("a", A(X, "s")), ("b", A(A(X, "ref"), "p")))),
    ("new", "MadeB", (), (("a", X), ("b", A(X, "flag")))),      # the constructed instance is falsy when x.flag is
    ("new", "Part", (A(X, "p"), X), ()),
    ("new", "Rev", (X, A(X, "q")), ()),
]


def bounds(tier):
    return {"heads": len(HEADS_XY) + len(HEADS_X), "body_depth": 1 if tier == "quick" else 2,
            "tiny_domain_max_rows": 2 if tier == "quick" else 3}


def cases(tier, inst):
    thorough = tier == "thorough"
    for h in HEADS_XY:
        yield ("xy", h, None, "rich")
        for t in trees_by_depth(leaves_xy(), 1):
            yield ("xy", h, t, "rich")
    xleaves = leaves_single()
    for h in HEADS_X:
        yield ("x", h, None, "grid")
        for t in trees_by_depth(xleaves[:12] + xleaves[18:30], 1 if not thorough else 1):
            if t[0] in ("and", "or") and not thorough and hash(t) % 5:
                continue
            yield ("x", h, t, "grid")
    doms = list(tiny_domains(3 if thorough else 2))
    for da, db in itertools.product(doms, doms):
        w = (("DA", "Item", da), ("DB", "Item", db))
        for h in (HEADS_XY[0], HEADS_XY[2]):
            for t in [None] + XY_REP[:2] + [("or", XY_REP[0], XY_REP[1]), ("not", XY_REP[0])]:
                yield ("xy", h, t, w)
    if thorough:
        for h in (HEADS_XY[0], HEADS_XY[4], HEADS_XY[6]):
            for t in trees_by_depth(XY_REP, 2):
                if Q.depth(t) == 2:
                    yield ("xy", h, t, "rich")
    # predicate-form rule (as in the repository's test_generate_drawers_predicate_form*): the head's arguments are
    # sub-queries over predicate-form variables, the body conditions refer to those variables
    for t in trees_by_depth(leaves_xy(), 1):
        for quant in ("an", "infer"):
            for kind in ("entity", "entity0"):
                if quant == "infer" and kind == "entity0" and t[0] != "cmp":
                    continue
                yield ("pformrule", (quant, kind), t, "rich")
    # nested constructor term that is itself inferred: its variables reach the head only through the nested term
    for bk in NINFER_B:
        yield ("ninfer", bk, None, "rich")
        for t in trees_by_depth(leaves_xy(), 1):
            if thorough or bk in ("bx", "b5") or t[0] in ("or", "and"):
                yield ("ninfer", bk, t, "rich")
    # a field described by the(...) in terms of the row (the one z with z.p == x.p), in the head only / in the head and in a
    # body condition (one object)
    for t in trees_by_depth(leaves_xy(), 1):
        if thorough or t[0] in ("cmp", "or", "and") or hash(t) % 2 == 0:
            yield ("thehead", "head", t, "rich")
            if t[0] in ("cmp", "in", "has", "pf", "pc") and "x" in Q.cond_vars(t):
                # (a correlated the(...) in a condition needs its outer variable bound by what is written before it: over
                # all x it has several solutions and raises, by design)
                yield ("thehead", "both", t, "rich")
    yield ("thehead", "head", None, "rich")
    # nested constructor term: matches Made2 instances already in the registry, reused as field values
    for pre in ((), ((0, 0),), ((0, 0), (1, 2)), ((0, 0), (0, 0)), ((3, 1), (2, 2), (0, 3))):
        for t in (None, XY_REP[0], XY_REP[2]):
            yield ("nested", pre, t, "rich")


NINFER_B = {"bx": X, "by": Y, "b5": L(5), "bxp": A(X, "p")}


def ninfer_query(case):
    """Made(a=infer(Made2(a=x, b=y)), b=...): the nested term is itself inferred (a new Made2 per assignment)"""
    _, bk, tree, w = case
    inner = ("sub", ("Q", "infer", "entity", ("new", "Made2", (), (("a", X), ("b", Y))), (), ()))
    return ("Q", "infer", "entity", ("new", "Made", (), (("a", inner), ("b", NINFER_B[bk]))), (tree,) if tree else (),
            VARS3[:2])


THE_Z = ("sub1", ("Q", "the", "entity", Z, (("cmp", "eq", A(Z, "p"), A(X, "p")),), (VARS3[2],)))


def thehead_query(case):
    _, where, tree, w = case
    conds = ((tree,) if tree else ()) + ((("cmp", "ge", A(THE_Z, "q"), L(1)),) if where == "both" else ())
    return ("Q", "infer", "entity", ("new", "Made", (), (("a", X), ("b", THE_Z), ("c", Y))), conds, VARS3[:2])


def pformrule_query(case):
    _, (quant, kind), tree, w = case
    hx = ("sub", ("Q", "an", kind, ("bound", "x", ("pform", "Item", "DA", (), ())), (), ()))
    hy = ("sub", ("Q", "an", kind, ("bound", "y", ("pform", "Item", "DB", (), ())), (), ()))
    return ("Q", quant, kind, ("new", "Made", (), (("a", hx), ("b", hy))), (tree,), ())


def query_of(case):
    vk, head, tree, w = case
    if vk == "pformrule":
        # what the rule means (used by the reference semantics): one Made(a=x, b=y) per (x, y) satisfying the body
        return ("Q", "infer", "entity", ("new", "Made", (), (("a", X), ("b", Y))), (tree,), VARS3[:2])
    if vk == "thehead":
        # what it means: z is the one object of DC with z.p == x.p
        conds = ((tree,) if tree else ()) + (("cmp", "eq", A(Z, "p"), A(X, "p")),) + ((("cmp", "ge", A(Z, "q"), L(1)),) if head == "both" else ())
        return ("Q", "infer", "entity", ("new", "Made", (), (("a", X), ("b", Z), ("c", Y))), conds, VARS3)
    if vk == "ninfer":
        # what it means (for the reference semantics): the nested Made2 is compared structurally
        head = ("new", "Made", (), (("a", ("new", "Made2", (), (("a", X), ("b", Y)))), ("b", NINFER_B[head])))
        vars_ = VARS3[:2]
    elif vk == "nested":
        head = ("new", "Made", (), (("a", ("new", "Made2", (), (("a", X), ("b", Y)))), ("b", X)))
        vars_ = VARS3[:2]
    else:
        vars_ = VARS3[:2] if vk == "xy" else VX
    return ("Q", "infer", "entity", head, (tree,) if tree else (), vars_)


def world_of(case):
    return {"rich": RICH, "grid": GRID}.get(case[3], case[3])


def run_case(case, inst):
    q = query_of(case)
    wspec = world_of(case)

    def body():
        world = build_world(wspec, inst)
        pre = []
        if case[0] == "nested":
            pre = [W.Made2(a=world["DA"][i], b=world["DB"][j]) for i, j in case[1]]
        got2 = None
        try:
            built = pformrule_query(case) if case[0] == "pformrule" else (ninfer_query(case) if case[0] == "ninfer" else
                                                                          (thehead_query(case) if case[0] == "thehead" else q))
            obj, b = Q.build(built, world, inst, mode="rule")
            got = [(r,) for r in obj.evaluate()]
            if case[0] in ("ninfer", "thehead"):
                got2 = [(r,) for r in obj.evaluate()]        # the same rule object evaluated again
        except Exception as e:
            got = exc_obs(e)
        ref = Q.Ref(world, inst)
        sols = ref.solutions(q)
        total = 1
        for v in q[5]:
            total *= len(ref.domain(v))
        if case[0] == "nested":
            exp = []
            for env in sols:
                for m in pre:
                    if m.a is env["x"] and m.b is env["y"]:
                        exp.append((("nested", id(m), Q.norm(env["x"])),))
            if not is_exc(got):
                got = [((("nested", id(r[0].a), Q.norm(r[0].b)) if isinstance(r[0], W.Made) else r[0]),) for r in got]
            # ids are only compared inside this process run: relabel by index in `pre`
            idx = {id(m): i for i, m in enumerate(pre)}
            relabel = lambda rows: [((r[0][0], idx.get(r[0][1], "not-a-registered-instance"), r[0][2]),)   # noqa: E731
                                    if isinstance(r[0], tuple) else r for r in rows]
            exp = relabel(exp)
            if not is_exc(got):
                got = relabel(got)
        else:
            exp = [(ref.value(q[3], env),) for env in sols]
        return got, got2, exp, total, len(sols)

    got, got2, exp, total, nsol = run_isolated(body)
    d = diff_rows(got, exp, count=True)
    if d is None and got2 is not None:
        d = diff_rows(got2, exp, count=True)
        if d is not None:
            d, got = "reevaluation:" + d, got2
    tree = case[2]
    res = {"ok": d is None, "nontrivial": 0 < nsol < total, "transitions": 1 + (0 if is_exc(got) else len(got)),
           "tags": [f"vars={case[0]}", f"root={root_kind(tree) if tree else 'none'}",
                    "positional" if (case[0] not in ("nested", "pformrule", "ninfer", "thehead") and case[1][2]) else "keyword",
                    "world=" + (case[3] if isinstance(case[3], str) else "tiny")],
           "outcome": str(nsol)}
    if d is not None:
        res.update(sig=f"{d}/{case[0]}/root={root_kind(tree) if tree else 'none'}", obs=row_labels(got),
                   exp=row_labels(exp))
    return res


def describe(case, inst):
    pre = ""
    if case[0] == "nested":
        pre = "\n" + "\n".join(f"Made2(a=DA[{i}], b=DB[{j}])   # registered beforehand" for i, j in case[1])
    return (Q.up_world(world_of(case), inst) + pre + "\n"
            + Q.up_query(pformrule_query(case) if case[0] == "pformrule" else
                         (ninfer_query(case) if case[0] == "ninfer" else
                          (thehead_query(case) if case[0] == "thehead" else query_of(case))), inst, mode="rule")
            + "\ninstances = list(q.evaluate())   # expected: one instance per satisfying assignment, built from it")
