"""C05 - result caching is transparent.

Enumerated: the case spaces of C02 (joins, unions, else-ifs, Cartesian completion), C03 (negations, built as not_(c) and
not_(not_(c))), C10 (for_all), C12 (rule trees), C15 (nested queries) and C16 (flatten) - each case under the
configuration product {caching enabled, caching disabled} x {first evaluation, re-evaluation of the same query object}.
Oracle: the four results are equal as sets of rows, and as multisets (row counts) when every variable is selected; for
rule trees the multiset of conclusions is compared.  The Python oracle is NOT consulted here (the source modules do
that): this check is purely differential, so it also covers constructs no oracle models.
Non-vacuity: the number of entries actually served by IndexedCache.retrieve with caching enabled is counted by a
run-time wrapper (statistics only).
"""
from __future__ import annotations

from collections import Counter

import eqlmc  # noqa: F401

from .. import qast as Q
from ..common import eval_twice, eval_after_abandoned, is_exc
from ..isolate import run_isolated
from ..worlds import build_world
from . import c02, c03, c10, c12, c15, c16

ID = "C05"
ENGINE = "eqlmc-E1"
TECHNIQUE = ("bounded exhaustive enumeration of programs x inputs x the configuration product {cache on/off} x {first / "
             "second evaluation}, differential comparison of the four results")
RULE = ("cases = (family, case of the source module's space); each executed under caching on/off, evaluated twice; "
        "non-trivial = the result is non-empty and at least one cache entry was served with caching enabled")
ASSUMPTIONS = ["fresh world and fresh build per configuration; the second evaluation re-uses the query object"]
BATCH = 150

_HITS = [0]
_WRAPPED = [False]


def _wrap_retrieve():
    if _WRAPPED[0]:
        return
    _WRAPPED[0] = True
    try:
        from entity_query_language.cache_data import IndexedCache
        orig = IndexedCache.retrieve

        def counting(self, *a, **k):
            top = k.get("cache") is None and (len(a) < 2 or a[1] is None)
            for item in orig(self, *a, **k):
                if top:
                    _HITS[0] += 1
                yield item
        IndexedCache.retrieve = counting
    except Exception:
        pass


def bounds(tier):
    return {"families": ["c02", "c03", "c10", "c12", "c15", "c16"], "configurations": "cache on/off x evaluation 1/2",
            "source_tier": tier}


def cases(tier, inst):
    for i, c in enumerate(c02.cases(tier, inst)):
        if tier == "thorough" or c[3] == "rich" or i % 3 == 0:
            yield ("c02", c)
    for c in c03.cases(tier, inst):
        # negation trees: all of depth <= 1, and of depth 2 a third (quick) / all (thorough); depth 3 is C03's own
        if Q.depth(c[1]) <= 1 or (Q.depth(c[1]) == 2 and (tier == "thorough" or hash(c) % 3 == 0)):
            yield ("c03", c)
    seen = set()
    for c in c10.cases(tier, inst):
        k = c[:-1]              # without the caching flag
        if k not in seen:
            seen.add(k)
            yield ("c10", k)
    seen = set()
    for c in c12.cases(tier, inst):
        k = c[:-1]              # without the caching flag (the configuration is this check's own dimension)
        if k not in seen:
            seen.add(k)
            yield ("c12", k)
    for c in c15.cases(tier, inst):
        yield ("c15", c)
    seen = set()
    for c in c16.cases("quick", inst):          # the flatten space at its quick bound in both tiers
        if c[0] and c[0][0] == "obj":
            continue                             # (their worlds are wired up after construction, C16 runs them itself)
        k = c[:3]
        if k not in seen:
            seen.add(k)
            yield ("c16", k)


def observe(fam, c, inst, caching):
    """-> list of observations (each a sorted list of (row, count) or an EXC tuple), all_selected flag"""
    if fam == "c12":
        if c[0] == "kjoin":
            out, exp = c12.kjoin_make_and_eval_twice(c + (caching,), inst)
        elif c[0] == "zjoin":
            out, exp = c12.join_make_and_eval_twice(c + (caching,), inst)
        else:
            out, exp = c12.make_and_eval_twice(c + (caching,), inst)
        return [o if is_exc(o) or (o and o[0] == "build") else sorted(Counter(o).items()) for o in out], True, 2
    if fam == "c02":
        q, wspec, pre = c02.query_of(c), c02.world_of(c), ()
        allsel = {v[0] for v in q[5]} <= {s[1] for s in q[3] if s[0] == "v"}
        qs = [q]
    elif fam == "c03":
        qc, qn, qnn = c03.queries_of(c)
        wspec, pre, allsel = (c03.GRID if c[0] == "x" else c03.RICH), (), True
        qs = [qn, qnn]
    elif fam == "c10":
        q, wspec, pre = c10.query_of(c + (caching,)), c10.wspec_of(c + (caching,)), (c10.VU,)
        allsel = c[0] != "free2" or len(c[3]) == 2
        qs = [q]
    elif fam == "c15":
        n, f, wspec = c15.queries_of(c)
        pre, allsel, qs = (), False, [n]
    elif fam == "c16":
        q, wspec, pre = c16.query_of(c + (caching,)), c16.wspec_of(c[0]), ()
        allsel, qs = c[1] != "e" and not c[2].startswith("unrel"), [q]      # (unrel*: an unselected variable, the result set)
    else:
        raise ValueError(fam)

    def body():
        out = []
        for q in qs:
            world = build_world(wspec, inst)
            out.extend(eval_twice(q, world, inst, predeclare=pre))
            # built afresh: a first evaluation that is closed after one result, then a full evaluation
            world = build_world(wspec, inst)
            out.append(eval_after_abandoned(q, world, inst, predeclare=pre))
        return out
    return run_isolated(body, caching=caching), allsel, 3


def as_set(o):
    return o if is_exc(o) or (o and o[0] == "build") else sorted(r for r, _ in o)


def run_case(case, inst):
    fam, c = case
    _wrap_retrieve()
    _HITS[0] = 0
    on, allsel, g = observe(fam, c, inst, True)
    hits = _HITS[0]
    off, _, _ = observe(fam, c, inst, False)
    res = {"ok": True, "transitions": len(on) + len(off), "tags": [f"family={fam}", "served_from_cache" if hits else "no_cache_entry_served"],
           "outcome": None}
    nonempty = False
    for i in range(0, len(on), g):
        group = [("on/eval1", on[i]), ("on/eval2", on[i + 1]), ("off/eval1", off[i]), ("off/eval2", off[i + 1])]
        if g == 3:
            group += [("on/after-abandoned-evaluation", on[i + 2]), ("off/after-abandoned-evaluation", off[i + 2])]
        ref_name, ref = group[2]         # uncached first evaluation is the reference configuration
        if not is_exc(ref) and ref and ref[0] != "build":
            nonempty = nonempty or len(ref) > 0
        for name, o in group:
            same = (o == ref) if allsel else (as_set(o) == as_set(ref))
            if not same:
                kind = "exc" if is_exc(o) else ("set" if as_set(o) != as_set(ref) else "count")
                res.update(ok=False, sig=f"{fam}:{name}-differs-from-{ref_name}:{kind}",
                           obs=(name, o), exp=(ref_name, ref))
                res["nontrivial"] = True
                return res
    res["nontrivial"] = nonempty and hits > 0
    return res


def describe(case, inst):
    fam, c = case
    mod = {"c02": c02, "c03": c03, "c10": c10, "c12": c12, "c15": c15, "c16": c16}[fam]
    full = c if fam in ("c02", "c03", "c15") else c + (True,)
    try:
        src = mod.describe(full, inst)
    except Exception as e:
        src = f"<{e}>"
    return (f"# family {fam}: the query below, built afresh under enable_caching() and under disable_caching(), evaluated "
            f"twice each (and, built once more, evaluated after a first evaluation that was closed after one result); all "
            f"results must be equal\n" + src)
