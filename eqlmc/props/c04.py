"""C04 - a query's answer does not depend on what was evaluated before it.

Engine E2 (stateless history exploration).  World: three pools of queries over SHARED variables.  Operations on a pool
query: F full evaluation - T1/T2 take k results then close - K1 take one result and keep the suspended iterator alive
(abandoned, never closed) - R1/R2 evaluate while the j-th call of the user predicate / Predicate.__call__ / method
raises - (for `the`) evaluate, whatever the outcome.  Every operation sequence of length <= d is replayed on fresh real
objects and followed by a full evaluation of EVERY query of the pool.
Oracle (differential): every full evaluation inside or after a history returns what the same query returns when it is
the first thing evaluated in a fresh world; the user's domain lists (identity, order) and objects (__dict__) are
unchanged.  Single-variable results are compared as lists (each once, in order), multi-variable ones as sets.
"""
from __future__ import annotations

import gc
import os

import eqlmc  # noqa: F401
from entity_query_language import (an, a, entity, set_of, let, the, infer, symbolic_mode, rule_mode, Add, alternative,
                                   refinement, and_, or_)

from .. import qast as Q
from .. import worlds as W
from ..common import X, Y, A, L, exc_obs, is_exc
from ..isolate import run_isolated
from ..space import sequences
from ..worlds import build_world

ID = "C04"
ENGINE = "eqlmc-E2"
TECHNIQUE = ("stateless exploration of every operation history up to a depth bound over a pool of real query objects, "
             "replayed from scratch, differential oracle against a fresh world")
RULE = ("cases = (pool, history): every sequence of <= d operations from the pool's alphabet (full / take-k-close / "
        "take-1-keep / fault at j-th user call) followed by a full evaluation of every pool query; non-trivial = the "
        "history contains at least one non-full step (early close, abandoned iterator or injected fault)"
        ' Wave 7: pool I also shares a disjunction whose first side is false everywhere under entity(y) / set_of([y, w]); pool J: variables whose domain is a query (one query for two variables, a fault while it is read, the(...) without / with several solutions).')
ASSUMPTIONS = ["kept iterators are abandoned (never resumed); resuming interleaved iterators is not claimed by the statement",
               "objects built by rule conclusions are compared structurally (type + field identities)"]
BATCH = 60
TASKS_PER_CHILD = 8

DA = ((("p", 1), ("q", 1)), (("p", 2), ("q", 1)), (("p", 3), ("q", 2)), (("p", 2), ("q", 3)))
DB = ((("p", 1), ("q", 2)), (("p", 2), ("q", 2)), (("p", 3), ("q", 1)))
DD = ((("p", 1), ("q", 1)), (("p", 2), ("q", 2)), ("same", 0), (("p", 3), ("q", 1)), ("same", 1))
DE = tuple((("p", i + 1),) for i in range(4))
_e = lambda i: ("@", "DE", i)      # noqa: E731
DP = ((("p", 1), ("items", (_e(0), _e(1), _e(2), _e(3)))), (("p", 2), ("items", (_e(1), _e(1), _e(2)))),
      (("p", 3), ("items", (_e(3), _e(0)))))
DO = ((("p", 1), ("q", 2)), (("p", 2), ("q", 2)), (("p", 1), ("q", 1)), (("p", 2), ("q", 1)), (("p", 3), ("q", 2)))
_o = lambda i: ("@", "DO", i)      # noqa: E731
DH = ((("inner", _o(0)), ("n", 1)), (("inner", _o(1)), ("n", 2)), (("inner", _o(4)), ("n", 1)))
DC = ((("a", _o(0)), ("b", _o(2))), (("a", _o(1)), ("b", _o(3))), (("a", _o(4)), ("b", _o(3))), (("a", _o(4)), ("b", _o(2))))
DL = ((("p", 1), ("items", ("list!", _e(0), _e(1)))), (("p", 2), ("items", ("list!",))),
      (("p", 3), ("items", ("list!", _e(1), _e(2), _e(1)))), (("p", 4), ("items", ("list!", _e(3)))))
DF = ((("p", 1), ("flag", True)), (("p", 2), ("flag", False)), (("p", 3), ("flag", 0)), (("p", 4), ("flag", 2)),
      (("p", 5), ("flag", "")))
WSPEC = (("DA", "Item", DA), ("DB", "Item", DB), ("DD", "Item", DD), ("DE", "Item", DE), ("DP", "Item", DP), ("DL", "Item", DL), ("DF", "Item", DF),
         ("DO", "Other", DO), ("DH", "Holder", DH), ("DC", "Made2", DC))
VX = ("x", "let", "Item", "DA")
VY = ("y", "let", "Item", "DB")
VD = ("xd", "let", "Item", "DD")
VP = ("xp", "let", "Item", "DP")
XP = ("v", "xp")
EL = ("fl", A(XP, "items"))          # one un-nesting node shared by every query of pool D
XD = ("v", "xd")
XI = ("v", "xi")

xp, xq, yp, yq = A(X, "p"), A(X, "q"), A(Y, "p"), A(Y, "q")
SPECS = {
    # pool A: joins and disjunctions over shared x, y
    "join": ("Q", "an", "setof", (X, Y), (("and", ("cmp", "eq", xp, yp), ("cmp", "le", xq, yq)),), (VX, VY)),
    "or_same": ("Q", "an", "entity", X, (("or", ("cmp", "eq", xp, L(1)), ("cmp", "eq", xq, L(2))),), (VX,)),
    "union": ("Q", "an", "setof", (X, Y), (("or", ("cmp", "eq", xp, L(1)), ("cmp", "eq", yq, L(2))),), (VX, VY)),
    "negand": ("Q", "an", "setof", (X, Y), (("not", ("and", ("cmp", "eq", xp, yp), ("cmp", "eq", yq, L(2)))),), (VX, VY)),
    "xonly": ("Q", "an", "entity", X, (("cmp", "ge", xp, L(2)),), (VX,)),
    # a conjunction whose right conjunct shares no variable with the left one (pure Cartesian combination)
    "indep": ("Q", "an", "setof", (X, Y), (("and", ("cmp", "ge", xp, L(2)), ("cmp", "ge", yq, L(2))),), (VX, VY)),
    # pool B: user code (faults) and a conjunction of two unions
    "pred": ("Q", "an", "entity", X, (("and", ("pf", "p_eq", (X, L(2))), ("cmp", "ge", xq, L(1))),), (VX,)),
    "pcls": ("Q", "an", "entity", X, (("pc", "PEq", (X, L(2))),), (VX,)),
    "meth": ("Q", "an", "setof", (X, Y), (("and", ("t", ("c", X, "is_p", (2,))), ("cmp", "lt", xq, yq)),), (VX, VY)),
    "indep_pred": ("Q", "an", "setof", (X, Y), (("and", ("cmp", "ge", xq, L(1)), ("pf", "p_eq", (Y, L(1)))),), (VX, VY)),
    "and_unions": ("Q", "an", "setof", (X, Y),
                   (("and", ("or", ("cmp", "eq", xp, L(1)), ("cmp", "eq", yq, L(2))),
                     ("or", ("cmp", "eq", xq, L(1)), ("cmp", "eq", yp, L(3)))),), (VX, VY)),
    # pool C: the / duplicate-listing domain / one-shot iterator domain / rule tree
    "the1": ("Q", "the", "entity", X, (("cmp", "eq", xp, L(3)),), (VX,)),
    "the2": ("Q", "the", "entity", X, (("cmp", "eq", xp, L(2)),), (VX,)),       # two solutions: raises
    "dup": ("Q", "an", "entity", XD, (("cmp", "ge", A(XD, "p"), L(1)),), (VD,)),
    "dupjoin": ("Q", "an", "setof", (XD, Y), (("cmp", "eq", A(XD, "p"), yp),), (VD, VY)),
    # pool D: un-nested collections (evaluations that stop in the middle of one parent's elements)
    "fl_pe": ("Q", "an", "setof", (XP, EL), (("cmp", "ge", A(EL, "p"), L(2)),), (VP,)),
    "fl_e": ("Q", "an", "entity", EL, (("cmp", "ge", A(EL, "p"), L(2)),), (VP,)),
    "fl_the": ("Q", "the", "entity", EL, (("cmp", "ge", A(EL, "p"), L(2)),), (VP,)),     # several solutions: raises
    "fl_pred": ("Q", "an", "setof", (XP, EL), (("pf", "p_eq", (EL, L(2))),), (VP,)),
    "fl_all": ("Q", "an", "setof", (XP, EL), (), (VP,)),
    # pool E: predicate-form variables without a domain (they range over the registry), in a query and in a rule
    "nd_k": "special", "nd_join": "special", "nd_rule": "special", "nd_o": "special",
    # pool F: ONE attribute expression object of a shared variable used by several queries in different roles (as a
    # condition, as an operand, as a selected value) over data with falsy values
    "sh_cond": "special", "sh_val": "special", "sh_sel": "special", "sh_valne": "special",
    # pool G: a SUB-QUERY object that is evaluated on its own and also nested in another query; one CONDITION object
    # used by several queries (alone, as the left side of a disjunction, as a conjunct)
    # pool H: concatenate / flatten over LIST-valued attributes (the user's own mutable collections) and queries that
    # read those attributes per object
    "cat_all": "special", "cat_in": "special", "cat_has": "special", "cat_flat": "special",
    "sq_part": "special", "sq_nested": "special", "cc_alone": "special", "cc_or": "special", "cc_and": "special",
    "cc_oror": "special",        # the shared condition object in BOTH operands of a disjunction, next to a third condition
    # ... and with DIFFERENT selections: a two-variable condition object under entity(x) and under set_of([x, y]); a
    # sub-query object as an operand in a query over x and in a query over x and z
    "cd_x": "special", "cd_xy": "special", "sd_x": "special", "sd_xz": "special",
    # ... a disjunction object whose FIRST side (over a third, never selected variable) is false everywhere: every row
    # comes from its second side, under entity(y) and under set_of([y, w])
    "ce_y": "special", "ce_yw": "special",
    # ... a conjunction object whose two sides are independent (x only / y only), as the condition of one query and as the
    # first side of a disjunction in another
    "ca_and": "special", "ca_or": "special",
    # pool J: variables whose DOMAIN is a sub-query: two variables over one sub-query object; a sub-query with user code
    # in it (a fault while the domain is being read); the(...) with no / with two solutions as the domain (the evaluation
    # raises - every time)
    "ds_a": "special", "ds_b": "special", "ds_pred": "special", "ds_none": "special", "ds_two": "special",
    "rule_late": "special",
    "iter": "special",
    "rule": "special",
    "rule_ref": "special",
}
USER_CODE = {"ds_pred": "p_eq", "pred": "p_eq", "pcls": "PEq", "meth": "is_p", "indep_pred": "p_eq", "fl_pred": "p_eq"}
POOLS = {
    "A": ("join", "or_same", "union", "negand", "xonly", "indep"),
    "B": ("pred", "pcls", "meth", "and_unions", "indep_pred"),
    "C": ("the1", "the2", "dup", "dupjoin", "iter", "rule", "rule_ref", "rule_late"),
    "D": ("fl_pe", "fl_e", "fl_the", "fl_pred", "fl_all"),
    "E": ("nd_k", "nd_join", "nd_rule", "nd_o"),
    "F": ("sh_cond", "sh_val", "sh_sel", "sh_valne"),
    "G": ("sq_part", "sq_nested", "cc_alone", "cc_or", "cc_and", "cc_oror"),
    "I": ("cd_x", "cd_xy", "sd_x", "sd_xz", "ce_y", "ce_yw", "ca_and", "ca_or"),
    "H": ("cat_all", "cat_in", "cat_has", "cat_flat"),
    "J": ("ds_a", "ds_b", "ds_pred", "ds_none", "ds_two"),
}


def alphabet(pool):
    ops = []
    for name in POOLS[pool]:
        if "the" in name:
            ops.append(("F", name))
            continue
        ops += [("F", name), ("T1", name), ("K1", name)]
        if name in ("join", "union", "and_unions", "dupjoin", "rule", "iter", "indep", "indep_pred", "nd_join", "nd_rule",
                    "rule_late", "cd_xy", "sd_xz", "ce_yw", "ca_and", "ca_or"):
            ops.append(("T2", name))
        if name in ("fl_pe", "fl_all"):
            ops += [("T2", name), ("T3", name), ("T5", name)]
        if name in USER_CODE:
            ops += [("R1", name), ("R2", name)]
        if name == "fl_pred":
            ops.append(("R6", name))
    return ops


def bounds(tier):
    return {"history_depth": 2 if tier == "quick" else 3, "pools": {k: len(alphabet(k)) for k in POOLS}}


def cases(tier, inst):
    d = 2 if tier == "quick" else 3
    if tier == "thorough" and os.environ.get("EQLMC_C04_DEPTH"):
        d = int(os.environ["EQLMC_C04_DEPTH"])
    for pool in POOLS:
        # deviation order: histories are enumerated by length; within a length in alphabet order (full steps first)
        for hist in sequences(alphabet(pool), d):
            yield (pool, hist)


class Pool:
    def __init__(self, pool, inst):
        self.inst = inst
        self.world = build_world(WSPEC, inst)
        self.snapshot = self._snap()
        self.b = Q.Builder(self.world, inst)
        self.q = {}
        self.kept = []
        with symbolic_mode():
            for name in POOLS[pool]:
                spec = SPECS[name]
                if spec != "special":
                    self.q[name] = self.b.query(spec)
        if "iter" in POOLS[pool]:
            xi = let(W.Item, iter(list(self.world["DA"])))
            self.b.env["xi"] = xi
            with symbolic_mode():
                self.q["iter"] = an(entity(xi, xi.p >= 2))
        if pool == "I":
            one, two, three = inst.v(1), inst.v(2), inst.v(3)
            xi_, yi_ = let(W.Item, self.world["DA"]), let(W.Item, self.world["DB"])
            x3, y3, z3 = (let(W.Item, self.world["DB"]) for _ in range(3))
            with symbolic_mode():
                cd = or_(xi_.p == yi_.q, xi_.p == three)           # one condition object over two variables
                self.q["cd_x"] = an(entity(xi_, cd))
                self.q["cd_xy"] = an(set_of([xi_, yi_], cd))
                sub = an(entity(y3, or_(and_(y3.p == z3.p, y3.q != one), y3.q == z3.q)))     # one sub-query object
                self.q["sd_x"] = an(entity(x3, sub.p == x3.p))
                self.q["sd_xz"] = an(set_of([x3, z3], sub.p == x3.p))
                xe, ye, we = let(W.Item, self.world["DA"]), let(W.Item, self.world["DB"]), let(W.Item, self.world["DB"])
                ce = or_(xe.p == inst.v(7), ye.p == we.q)
                self.q["ce_y"] = an(entity(ye, ce))
                self.q["ce_yw"] = an(set_of([ye, we], ce))
                xa, ya = let(W.Item, self.world["DA"]), let(W.Item, self.world["DB"])
                ca = and_(xa.p >= two, ya.q == two)
                self.q["ca_and"] = an(set_of([xa, ya], ca))
                self.q["ca_or"] = an(set_of([xa, ya], or_(ca, ya.p == three)))
            self.cd_sel = {"cd_xy": (xi_, yi_), "sd_xz": (x3, z3), "ce_yw": (ye, we), "ca_and": (xa, ya), "ca_or": (xa, ya)}
        if pool == "J":
            one, two = inst.v(1), inst.v(2)
            with symbolic_mode():
                xj, yj = let(W.Item, self.world["DA"]), let(W.Item, self.world["DB"])
                sub = an(entity(yj, or_(xj.p == inst.v(9), xj.p == yj.q)))          # ONE sub-query object, two variables over it
                za, zb = let(W.Item, domain=sub), let(W.Item, domain=sub)
                self.q["ds_a"] = an(entity(za))
                self.q["ds_b"] = an(entity(zb, zb.p >= one))
                yp_ = let(W.Item, self.world["DA"])
                zp = let(W.Item, domain=an(entity(yp_, W.p_eq(yp_, two) | (yp_.q >= one))))
                self.q["ds_pred"] = an(entity(zp, zp.q >= one))
                y0, y2 = let(W.Item, self.world["DA"]), let(W.Item, self.world["DA"])
                z0 = let(W.Item, domain=the(entity(y0, y0.p == inst.v(9))))
                self.q["ds_none"] = an(entity(z0, z0.q >= one))
                z2 = let(W.Item, domain=the(entity(y2, y2.p == two)))
                self.q["ds_two"] = an(entity(z2, z2.q >= one))
        if pool == "H":
            from entity_query_language import concatenate, flatten, in_, contains
            xl, el = let(W.Item, self.world["DL"]), let(W.Item, self.world["DE"])
            with symbolic_mode():
                self.q["cat_all"] = an(entity(concatenate(xl.items)))
                self.q["cat_in"] = an(entity(el, in_(el, concatenate(xl.items))))
                self.q["cat_has"] = an(set_of([xl, el], contains(xl.items, el)))      # reads the attribute per object
                fe = flatten(xl.items)
                self.q["cat_flat"] = an(set_of([xl, fe]))
            self.cat_sel = {"cat_has": (xl, el), "cat_flat": (xl, fe)}
        if pool == "G":
            one, two, three = inst.v(1), inst.v(2), inst.v(3)
            xg, yg = let(W.Item, self.world["DA"]), let(W.Item, self.world["DB"])
            with symbolic_mode():
                part1 = an(entity(xg, xg.p == one))
                part2 = an(entity(xg, xg.q == two))
                self.q["sq_part"] = part1
                self.q["sq_nested"] = an(entity(xg, part1 | part2))
                xc = let(W.Item, self.world["DA"])
                c = xc.p == two                                   # one condition object, reused below
                self.q["cc_alone"] = an(entity(xc, c))
                self.q["cc_or"] = an(entity(xc, or_(c, xc.q == one)))
                self.q["cc_and"] = an(set_of([xc, yg], and_(c, xc.q <= yg.q)))
                self.q["cc_oror"] = an(entity(xc, or_(or_(c, c), xc.q == two)))
            self.cc_sel = (xc, yg)
        if pool == "F":
            xf = let(W.Item, self.world["DF"])
            with symbolic_mode():
                lvl = xf.flag                                   # one expression object, reused below
                self.q["sh_cond"] = an(entity(xf, lvl))
                self.q["sh_val"] = an(entity(xf, lvl == False))     # noqa: E712
                self.q["sh_sel"] = an(set_of([xf, lvl]))
                self.q["sh_valne"] = an(entity(xf, and_(xf.p >= 2, lvl != True)))    # noqa: E712
            self.sh_sel = (xf, lvl)
        if pool == "E":
            two, one = inst.v(2), inst.v(1)
            with symbolic_mode():
                ok = W.Other(q=two)
                self.q["nd_k"] = an(entity(ok))
                o = W.Other(q=two)
                h = W.Holder(inner=o)
                self.q["nd_join"] = an(set_of([o, h]))
                self.nd_sel = (o, h)
                self.q["nd_o"] = an(entity(o, o.p >= two))
            with rule_mode():
                self.q["nd_rule"] = infer(W.Made(a=a(ro := W.Other(q=two)), b=a(ri := W.Other(q=one))),
                                          W.Holder(inner=ro, n=one), W.Made2(a=ro, b=ri))
        if "rule" in POOLS[pool]:
            x, y = self.b.env["x"], self.b.env["y"]
            with symbolic_mode():
                views = let(W.View)
                rq = an(entity(views, x.p == y.p))
            with rule_mode(rq):
                Add(views, W.Made(a=x, b=y, c=1))
                with alternative(x.q == y.q):
                    Add(views, W.Made(a=x, b=y, c=2))
            self.q["rule"] = rq
            with symbolic_mode():
                views2 = let(W.View)
                rq2 = an(entity(views2, x.p <= y.p))
            with rule_mode(rq2):
                Add(views2, W.Made(a=x, b=y, c=1))
                with refinement(x.q == y.q):
                    Add(views2, W.Made(a=x, b=y, c=2))
            self.q["rule_ref"] = rq2
            # a tree whose base has no conclusion of its own (as in the repository's "better rule tree" tests) and whose
            # FIRST domain objects match the base but fire no branch: nothing is concluded for them
            with symbolic_mode():
                views3 = let(W.View)
                rq3 = infer(entity(views3, x.p >= inst.v(1)))
            with rule_mode(rq3):
                with refinement(x.q >= inst.v(2)):
                    Add(views3, W.Made(a=x, c=1))
                    with alternative(x.q == inst.v(5)):
                        Add(views3, W.Made(a=x, c=3))
                with alternative(x.p == inst.v(5)):
                    Add(views3, W.Made(a=x, c=2))
            self.q["rule_late"] = rq3

    def _snap(self):
        def frozen(v):
            # the user's own mutable collections are compared by content too (an in-place extension keeps the identity)
            return (v, list(v)) if isinstance(v, list) else ((v, dict(v)) if isinstance(v, dict) else (v, None))
        return {k: ([id(o) for o in objs], [{f: frozen(v) for f, v in vars(o).items()} for o in objs])
                for k, objs in self.world.items()}

    def data_unchanged(self):
        now = self._snap()
        for k in now:
            if now[k][0] != self.snapshot[k][0]:
                return f"domain list {k} changed"
            for a, b in zip(now[k][1], self.snapshot[k][1]):
                if a.keys() != b.keys() or any(a[f][0] is not b[f][0] for f in a):
                    return f"object of {k} changed"
                for f in a:
                    if a[f][1] is not None and (len(a[f][1]) != len(b[f][1]) or (
                            isinstance(a[f][1], list) and any(u is not w for u, w in zip(a[f][1], b[f][1]))) or (
                            isinstance(a[f][1], dict) and a[f][1] != b[f][1])):
                        return f"collection {f} of an object of {k} changed in place"
        return None

    def norm_result(self, name, rows):
        spec = SPECS[name]
        if name == "nd_join":
            return [tuple(Q.norm(r[s]) for s in self.nd_sel) for r in rows]
        if name == "sh_sel":
            return [tuple(Q.norm(r[s]) for s in self.sh_sel) for r in rows]
        if name == "cc_and":
            return [tuple(Q.norm(r[s]) for s in self.cc_sel) for r in rows]
        if name in ("cd_xy", "sd_xz", "ce_yw", "ca_and", "ca_or"):
            return [tuple(Q.norm(r[s]) for s in self.cd_sel[name]) for r in rows]
        if name in ("cat_has", "cat_flat"):
            return [tuple(Q.norm(r[s]) for s in self.cat_sel[name]) for r in rows]
        if name == "cat_all":
            return [Q.norm(list(r)) for r in rows]
        if spec != "special" and spec[2] == "setof":
            sel = self.b.sel[spec]
            return [tuple(Q.norm(r[s]) for s in sel) for r in rows]
        return [Q.norm(r) for r in rows]

    def full(self, name):
        q = self.q[name]
        try:
            if "the" in name:
                return ("value", Q.norm(q.evaluate()))
            return self.norm_result(name, list(q.evaluate()))
        except W.InjectedFault:
            raise
        except Exception as e:
            return exc_obs(e)

    def apply(self, op):
        kind, name = op
        q = self.q[name]
        W.LOG.reset()
        if kind == "F":
            return self.full(name)
        if kind[0] in "TK":
            k = int(kind[1])
            it = q.evaluate()
            got = []
            try:
                for _ in range(k):
                    got.append(next(it))
            except StopIteration:
                pass
            except Exception as e:
                return exc_obs(e)
            if kind == "K1":
                self.kept.append(it)
            else:
                try:
                    it.close()
                except Exception as e:
                    return exc_obs(e)
            return ("took", len(got))
        if kind[0] == "R":
            W.LOG.raise_at = (USER_CODE[name], int(kind[1]))
            try:
                list(q.evaluate())
                return ("no-fault-reached",)
            except W.InjectedFault:
                return ("fault",)
            except Exception as e:
                return exc_obs(e)
            finally:
                W.LOG.raise_at = None
        raise ValueError(op)


_FRESH = {}


def fresh_result(pool, name, inst):
    """the query evaluated as the first thing in a fresh world (same pool construction), computed by the real library"""
    key = (pool, name, inst.seed)
    if key not in _FRESH:
        def body():
            p = Pool(pool, inst)
            W.LOG.reset()
            return p.full(name)
        _FRESH[key] = run_isolated(body)
    return _FRESH[key]


def same(name, got, exp):
    """single-variable queries: exact list; multi-variable queries: set"""
    if is_exc(got) or is_exc(exp) or (isinstance(got, tuple) and got and got[0] == "value") \
            or (isinstance(exp, tuple) and exp and exp[0] == "value"):
        return got == exp
    spec = SPECS[name]
    if name in ("cc_and", "cd_xy", "sd_xz", "cd_x", "sd_x", "ce_y", "ce_yw", "ca_and", "ca_or"):
        return set(got) == set(exp)
    if name.startswith(("sq_", "cc_")):
        # pool G: the statement promises the same result SET; with a condition object shared by several queries the order in
        # which a warm cache replays its rows depends on which query filled it first (each row still exactly once)
        return sorted(map(repr, got)) == sorted(map(repr, exp))
    if name in ("rule", "rule_ref", "rule_late", "fl_pe", "fl_pred", "fl_all", "nd_rule", "nd_join", "sh_sel", "cat_flat", "cat_has"):     # one row per (parent, occurrence): multiset
        return sorted(map(repr, got)) == sorted(map(repr, exp))
    if spec == "special" or spec[2] == "entity" or name == "dupjoin":
        return got == exp if name != "dupjoin" else sorted(map(repr, got)) == sorted(map(repr, exp))
    return set(got) == set(exp)


def run_case(case, inst):
    pool, hist = case
    fresh = {name: fresh_result(pool, name, inst) for name in POOLS[pool]}

    def body():
        p = Pool(pool, inst)
        trans = 0
        outcomes = []
        for i, op in enumerate(hist):
            r = p.apply(op)
            trans += 1
            outcomes.append(r if isinstance(r, tuple) and len(r) <= 2 and r[0] in ("took", "fault", "no-fault-reached") else "res")
            if op[0] == "F" and not same(op[1], r, fresh[op[1]]):
                return ("step", i, op, r, fresh[op[1]]), trans, outcomes
            if is_exc(r) and op[0] != "F" and not (is_exc(fresh[op[1]]) and r[:2] == fresh[op[1]][:2]):
                # (a query whose fresh evaluation raises - the(...) without a solution as a domain - raises in a partial
                # evaluation too: the same exception)
                return ("step-exc", i, op, r, "no exception from the library"), trans, outcomes
        for name in POOLS[pool]:
            W.LOG.reset()
            r = p.full(name)
            trans += 1
            if not same(name, r, fresh[name]):
                return ("final", len(hist), ("F", name), r, fresh[name]), trans, outcomes
        ch = p.data_unchanged()
        if ch:
            return ("data", len(hist), None, ch, "unchanged"), trans, outcomes
        del p.kept[:]
        gc.collect(0)
        return None, trans, outcomes

    bad, trans, outcomes = run_isolated(body)
    nonfull = sum(1 for op in hist if op[0] != "F")
    res = {"ok": bad is None, "nontrivial": nonfull > 0, "transitions": trans,
           "tags": [f"pool={pool}", f"len={len(hist)}", f"deviations={nonfull}"] + [f"op={op[0]}" for op in set(hist)],
           "outcome": repr(outcomes)}
    if bad is not None:
        where, i, op, got, exp = bad
        prev = hist[i - 1] if i > 0 and i <= len(hist) else None
        res.update(sig=f"{where}:{op[1] if op else ''} after {prev[0] + ':' + prev[1] if prev else 'nothing'}",
                   obs=got, exp=exp)
    return res


def describe(case, inst):
    pool, hist = case
    lines = [Q.up_world(WSPEC, inst), f"# pool {pool}: queries over shared variables x (DA), y (DB), xd (DD), xp (DP)"]
    for name in POOLS[pool]:
        spec = SPECS[name]
        if spec != "special":
            lines.append(f"{name}: " + Q.up_query(spec, inst))
        elif name == "iter":
            lines.append("iter: xi = let(Item, iter(DA)); q = an(entity(xi, xi.p >= 2))")
        elif name in ("cd_x", "cd_xy", "sd_x", "sd_xz", "ce_y", "ce_yw", "ca_and", "ca_or"):
            lines.append({
                "ca_and": "xa = let(Item, DA); ya = let(Item, DB); ca = and_(xa.p >= 2, ya.q == 2)   # ONE conjunction object, independent sides\nca_and: an(set_of([xa, ya], ca))",
                "ca_or": "ca_or: an(set_of([xa, ya], or_(ca, ya.p == 3)))",
                "ce_y": "xe = let(Item, DA); ye = let(Item, DB); we = let(Item, DB); ce = or_(xe.p == 7, ye.p == we.q)   # ONE condition object\nce_y: an(entity(ye, ce))",
                "ce_yw": "ce_yw: an(set_of([ye, we], ce))",
                "cd_x": "x = let(Item, DA); y = let(Item, DB); cd = or_(x.p == y.q, x.p == 3)   # ONE condition object\ncd_x: an(entity(x, cd))",
                "cd_xy": "cd_xy: an(set_of([x, y], cd))",
                "sd_x": "x3, y3, z3 = let(Item, DB) x 3; sub = an(entity(y3, or_(and_(y3.p == z3.p, y3.q != 1), y3.q == z3.q)))   # ONE sub-query object\nsd_x: an(entity(x3, sub.p == x3.p))",
                "sd_xz": "sd_xz: an(set_of([x3, z3], sub.p == x3.p))"}[name])
        elif name.startswith("ds_"):
            lines.append({
                "ds_a": "xj = let(Item, DA); yj = let(Item, DB); sub = an(entity(yj, or_(xj.p == 9, xj.p == yj.q)))   # ONE sub-query object\n"
                        "za = let(Item, domain=sub); zb = let(Item, domain=sub)\nds_a: an(entity(za))",
                "ds_b": "ds_b: an(entity(zb, zb.p >= 1))",
                "ds_pred": "ds_pred: zp = let(Item, domain=an(entity(yp, p_eq(yp, 2) | (yp.q >= 1))))  [yp over DA]; an(entity(zp, zp.q >= 1))",
                "ds_none": "ds_none: z0 = let(Item, domain=the(entity(y0, y0.p == 9)))  [no solution]; an(entity(z0, z0.q >= 1))",
                "ds_two": "ds_two: z2 = let(Item, domain=the(entity(y2, y2.p == 2)))  [two solutions]; an(entity(z2, z2.q >= 1))"}[name])
        elif name == "rule_late":
            lines.append("rule_late: q = infer(entity(views3 := let(View), x.p >= 1)); with rule_mode(q):\\n    with refinement(x.q >= 2): "
                         "Add(views3, Made(a=x, c=1)); with alternative(x.q == 5): Add(views3, Made(a=x, c=3))\\n    "
                         "with alternative(x.p == 5): Add(views3, Made(a=x, c=2))   # the base itself concludes nothing")
        elif name.startswith("cat_"):
            lines.append({
                "cat_all": "xl = let(Item, DL); el = let(Item, DE)\ncat_all: an(entity(concatenate(xl.items)))",
                "cat_in": "cat_in: an(entity(el, in_(el, concatenate(xl.items))))",
                "cat_has": "cat_has: an(set_of([xl, el], contains(xl.items, el)))",
                "cat_flat": "cat_flat: an(set_of([xl, fe := flatten(xl.items)]))"}[name])
        elif name.startswith(("sq_", "cc_")):
            lines.append({
                "sq_part": "xg = let(Item, DA); part1 = an(entity(xg, xg.p == 1)); part2 = an(entity(xg, xg.q == 2))\nsq_part: part1",
                "sq_nested": "sq_nested: an(entity(xg, part1 | part2))",
                "cc_alone": "xc = let(Item, DA); c = (xc.p == 2)   # ONE condition object\ncc_alone: an(entity(xc, c))",
                "cc_or": "cc_or: an(entity(xc, or_(c, xc.q == 1)))",
                "cc_and": "cc_and: an(set_of([xc, y], and_(c, xc.q <= y.q)))   # y = let(Item, DB)",
                "cc_oror": "cc_oror: an(entity(xc, or_(or_(c, c), xc.q == 2)))"}[name])
        elif name.startswith("sh_"):
            lines.append({
                "sh_cond": "xf = let(Item, DF); lvl = xf.flag   # ONE expression object\nsh_cond: an(entity(xf, lvl))",
                "sh_val": "sh_val: an(entity(xf, lvl == False))",
                "sh_sel": "sh_sel: an(set_of([xf, lvl]))",
                "sh_valne": "sh_valne: an(entity(xf, and_(xf.p >= 2, lvl != True)))"}[name])
        elif name.startswith("nd_"):
            lines.append({
                "nd_k": "nd_k: an(entity(Other(q=2)))",
                "nd_join": "nd_join: an(set_of([o := Other(q=2), h := Holder(inner=o)]))",
                "nd_o": "nd_o: an(entity(o, o.p >= 2))      # the same o",
                "nd_rule": "nd_rule: with rule_mode(): infer(Made(a=a(ro := Other(q=2)), b=a(ri := Other(q=1))), "
                           "Holder(inner=ro, n=1), Made2(a=ro, b=ri))"}[name])
        elif name == "rule":
            lines.append("rule: q = an(entity(views := let(View), x.p == y.p)); with rule_mode(q): Add(views, Made(a=x, b=y, c=1));"
                         " with alternative(x.q == y.q): Add(views, Made(a=x, b=y, c=2))")
        else:
            lines.append("rule_ref: q = an(entity(views2 := let(View), x.p <= y.p)); with rule_mode(q): Add(views2, Made(a=x,b=y,c=1));"
                         " with refinement(x.q == y.q): Add(views2, Made(a=x, b=y, c=2))")
    lines.append("history: " + " ; ".join(f"{k}({n})" for k, n in hist) + " ; then list(q.evaluate()) for every pool query")
    lines.append("# F=full evaluation, T<k>=take k results then close(), K1=take 1 and keep the iterator alive, "
                 "R<j>=the j-th call of the query's user code raises")
    if pool == "D":
        lines.append("# flatten(xp.items) is ONE expression object shared by the queries of the pool")
    lines.append("# expected: every full evaluation equals the query's result as first evaluation in a fresh world")
    return "\n".join(lines)
