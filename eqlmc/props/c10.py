"""C10 - for_all yields exactly the bindings whose condition holds for every value.

Enumerated: universal = a variable or an attribute expression of it, over every non-empty domain of 1..3 rows (repeated
values included) on a 2x2 (thorough: 3x2) value grid; condition trees to depth 1 (2) over leaves mentioning the universal
only, the free variable only, or both, with and without literals; the for_all alone and conjoined before / after
another condition; both cache settings; first evaluation and re-evaluation.
Oracle: {f | all(c(f, u) for u in U)} (and the other conjunct).
"""
from __future__ import annotations

import itertools

from entity_query_language import an, set_of

from .. import qast as Q
from ..common import X, A, L, V, eval_rows, diff_rows, row_labels, is_exc, exc_obs, root_kind
from ..isolate import run_isolated
from ..space import trees_by_depth
from ..worlds import build_world

ID = "C10"
ENGINE = "eqlmc-E1"
RULE = ("cases = (universal form, condition tree, placement, universal domain, caching); all trees of depth<=d x all "
        "universal domains of <=3 rows; non-trivial = some but not all free bindings are expected"
        ' Wave 7: the universal is a sub-query correlated with the free variable (alone / before / after / nested in another for_all), the un-nested elements or an index of an attribute of the selected variable.')
ASSUMPTIONS = ["the universal domain is non-empty (as the statement requires)", "values non-falsy (falsy: C19)"]

U = V("u")
FREE = (("p", 1), ("q", 1)), (("p", 2), ("q", 1)), (("p", 1), ("q", 2)), (("p", 2), ("q", 2)), (("p", 3), ("q", 1))
VX = ("x", "let", "Item", "F")
VU = ("u", "let", "Item", "U")


def leaves(uform):
    up, uq = (A(U, "p"), A(U, "q"))
    xp, xq = A(X, "p"), A(X, "q")
    if uform == "attr":          # the universal is the expression u.q: conditions mention only that expression
        return [("cmp", "ge", xp, uq), ("cmp", "ne", uq, xq), ("cmp", "eq", xp, uq), ("cmp", "le", uq, L(1)),
                ("cmp", "ge", xq, L(2)), ("cmp", "ne", xp, L(1))]
    return [("cmp", "ge", xp, up), ("cmp", "ne", uq, xq), ("cmp", "eq", xp, up), ("cmp", "lt", xq, up),
            ("cmp", "ge", up, L(2)), ("cmp", "eq", uq, L(1)), ("cmp", "ge", xq, L(2)), ("cmp", "ne", xp, L(1)),
            ("cmp", "eq", up, uq),
            # user predicates over the free and the universal variable (function and class form), over the universal only
            ("pf", "p_lt", (U, X)), ("pc", "PLt", (X, U)), ("pf", "p_eq", (U, L(1)))]


def udomains(max_rows, values):
    for n in range(1, max_rows + 1):
        for combo in itertools.product(values, repeat=n):
            yield tuple((("p", p), ("q", q)) for p, q in combo)


def bounds(tier):
    return {"depth": 1 if tier == "quick" else 2, "universal_rows": "1..3", "placements": ["alone", "before", "after"],
            "universal_forms": ["var", "attr"]}


def cases(tier, inst):
    thorough = tier == "thorough"
    vals = ((1, 1), (2, 1), (1, 2), (2, 2)) + (((3, 1),) if thorough else ())
    doms = list(udomains(3 if thorough else 2, vals)) if thorough else \
        list(udomains(2, vals)) + [d for d in udomains(3, vals[:3])]
    for uform in ("var", "attr"):
        lv = leaves(uform)
        for t in trees_by_depth(lv, 1):
            for dom in doms:
                for caching in (True, False):
                    yield (uform, t, "alone", dom, caching)
            for place in ("before", "after"):
                for dom in doms[:12]:
                    yield (uform, t, place, dom, True)
    # two free variables of which only one may be selected: the universal is decided per binding of BOTH
    doms2 = [d for d in udomains(2, vals[:4])]
    for t in trees_by_depth(leaves2(), 1):
        if not ({"x", "y"} & Q.cond_vars(t)):
            continue
        for place in ("alone", "before", "after"):
            for sel in (("x",), ("y",), ("x", "y"), ("y", "x")):
                for dom in (doms2 if thorough else doms2[:4] + doms2[8:12]):
                    for caching in ((True, False) if place != "after" else (True,)):
                        yield ("free2", t, place, sel, dom, caching)
    # the universal is a SUB-QUERY over u whose condition mentions the free variable (every u with u.q <= x.p ...): its
    # values differ from one binding of x to the next; conditions reach the value through the sub-query object (S.p).
    # `nested`: for_all(w, for_all(S(w), c(x, S))) - the inner universal depends on the outer universal variable
    sub_leaves = [leaves("var")[i] for i in (0, 1, 2, 3, 4, 9)]
    sub_doms = [d for i, d in enumerate(doms) if len(d) >= 2][::(1 if thorough else 3)]
    for sk in SUBCONDS:
        for t in trees_by_depth(sub_leaves, 1):
            if "u" not in Q.cond_vars(t):
                continue
            for place in ("alone", "before", "after", "nested"):
                if place == "nested" and sk == "uncorrelated":
                    continue
                for dom in sub_doms:
                    for caching in ((True, False) if place == "alone" else (True,)):
                        yield ("subq", sk, t, place, dom, caching)
    # the condition CONTAINS a sub-query with a variable of its own (for every u there is a w ...; a the(...) operand), or is
    # an object that another query - built afterwards, never evaluated - uses as well
    for kind in SUBC:
        for place in ("alone", "before", "after"):
            for dom in sub_doms[:8]:
                yield ("subc", kind, place, dom, True)
    # TWO universal conditions next to each other whose universals are expressions of the SAME variable (u.q and u.q, u.q
    # and u): the variable is quantified in each of them, what the other one ranges over does not make it a free variable
    la, lv_ = leaves("attr"), [leaves("var")[i] for i in (0, 1, 4, 6)]
    for conn in ("and", "or"):
        for t1 in la:
            for t2 in la[:4]:
                for dom in sub_doms[:6]:
                    yield ("sib", conn, "qq", t1, t2, dom, True)
            for t2 in lv_:
                for dom in sub_doms[:4]:
                    yield ("sib", conn, "qv", t1, t2, dom, True)
    # the universal is built from the FREE (selected) variable: every element of x.t (un-nested), the value x.t[0]
    for uk in CORR_UNIVERSALS:
        for t in trees_by_depth(corr_leaves(uk), 1 if not thorough else 2):
            if thorough and Q.depth(t) == 2 and hash(t) % 4:
                continue
            for place in ("alone", "before", "after"):
                for wk in range(len(CORR_WORLDS)):
                    for caching in (True, False):
                        yield ("corr", uk, t, place, wk, caching)
    rep = [leaves("var")[i] for i in (0, 1, 4, 6)]
    sel_doms = [doms[i] for i in (0, 3, 5, 9, 14, len(doms) - 1)]
    for t in trees_by_depth(rep, 2):
        if Q.depth(t) == 2:
            for dom in (sel_doms if thorough else sel_doms[2:5]):
                for caching in ((True, False) if thorough else (True,)):
                    yield ("var", t, "alone", dom, caching)


FREE_X2 = (("p", 1), ("q", 1)), (("p", 2), ("q", 2))
FREE_Y2 = (("p", 1), ("q", 1)), (("p", 2), ("q", 2)), (("p", 3), ("q", 1))
VY = ("y", "let", "Item", "G")
Y_ = V("y")


def leaves2():
    """leaves over two free variables x, y and the universal u"""
    up, uq, xp, xq, yp, yq = A(U, "p"), A(U, "q"), A(X, "p"), A(X, "q"), A(Y_, "p"), A(Y_, "q")
    return [("cmp", "gt", xp, up), ("cmp", "ge", yp, up), ("cmp", "ne", yq, uq), ("cmp", "eq", xq, uq),
            ("cmp", "ge", yp, xp), ("cmp", "ge", up, L(2))]


CORR_UNIVERSALS = {"fl": ("fl", A(X, "t")), "idx": ("i", A(X, "t"), 0)}
CORR_WORLDS = (
    ((("p", 1), ("q", 1), ("t", (1, 2))), (("p", 2), ("q", 1), ("t", (2,))), (("p", 1), ("q", 2), ("t", (1, 1))),
     (("p", 3), ("q", 1), ("t", (3, 1))), (("p", 2), ("q", 2), ("t", (2, 2, 3)))),
    ((("p", 2), ("q", 2), ("t", (2, 2))), (("p", 2), ("q", 1), ("t", (1, 3, 2))), (("p", 3), ("q", 3), ("t", (3,)))),
)


def corr_leaves(uk):
    e = CORR_UNIVERSALS[uk]
    return [("cmp", "le", e, A(X, "p")), ("cmp", "ne", A(X, "q"), e), ("cmp", "ge", e, L(2)), ("cmp", "eq", e, A(X, "p")),
            ("cmp", "ge", A(X, "q"), L(2))]


W_ = V("w")
VW = ("w", "let", "Item", "W")
WROWS = (("p", 1), ("q", 2)), (("p", 2), ("q", 1)), (("p", 3), ("q", 1))
SUBCONDS = {"le": lambda o: ("cmp", "le", A(U, "q"), A(o, "p")), "ne": lambda o: ("cmp", "ne", A(U, "p"), A(o, "q")),
            "eq": lambda o: ("cmp", "eq", A(U, "p"), A(o, "p")), "uncorrelated": lambda o: ("cmp", "ge", A(U, "p"), L(2))}


def subst(t, old, new):
    if t == old:
        return new
    if isinstance(t, tuple):
        return tuple(subst(e, old, new) for e in t)
    return t


def subq_parts(case):
    _, sk, t, place, dom, caching = case
    outer = W_ if place == "nested" else X
    scond = SUBCONDS[sk](outer)
    S = ("sub1", ("Q", "an", "entity", U, (scond,), (VU,)))
    return outer, scond, S


_the_w = ("sub1", ("Q", "the", "entity", W_, (("cmp", "eq", A(W_, "p"), L(2)),), (VW,)))
SUBC = {
    # name: (condition as built, python oracle of the condition for (x, u, W))
    "exists": (("sq", ("Q", "an", "entity", W_, (("cmp", "eq", A(W_, "p"), A(U, "p")),), (VW,))),
               lambda x, u, ws, v: any(w.p == u.p for w in ws)),
    "exists_x": (("sq", ("Q", "an", "entity", W_, (("cmp", "eq", A(W_, "p"), A(U, "p")), ("cmp", "le", A(W_, "q"), A(X, "q"))), (VW,))),
                 lambda x, u, ws, v: any(w.p == u.p and w.q <= x.q for w in ws)),
    "the": (("or", ("cmp", "gt", A(X, "p"), A(_the_w, "q")), ("cmp", "ge", A(X, "q"), A(U, "q"))),
            lambda x, u, ws, v: x.p > [w for w in ws if w.p == v(2)][0].q or x.q >= u.q),
    "shared": (("or", ("cmp", "ge", A(X, "q"), L(2)), ("cmp", "ge", A(X, "p"), A(U, "p"))),
               lambda x, u, ws, v: x.q >= v(2) or x.p >= u.p),
}


def query_of(case):
    if case[0] == "subc":
        _, kind, place, dom, caching = case
        fa = ("fa", U, SUBC[kind][0])
        other = ("cmp", "le", A(X, "p"), L(2))
        conds = {"alone": (fa,), "before": (("andf", other, fa),), "after": (("andf", fa, other),)}[place]
        return ("Q", "an", "setof", (X,), conds, (VX,))
    if case[0] == "sib":
        _, conn, kind, t1, t2, dom, caching = case
        second = A(U, "q") if kind == "qq" else U
        return ("Q", "an", "setof", (X,), ((conn, ("fa", A(U, "q"), t1), ("fa", second, t2)),), (VX,))
    if case[0] == "corr":
        _, uk, t, place, wk, caching = case
        fa = ("fa", CORR_UNIVERSALS[uk], t)
        other = ("cmp", "le", A(X, "p"), L(2))
        conds = {"alone": (fa,), "before": (("andf", other, fa),), "after": (("andf", fa, other),)}[place]
        return ("Q", "an", "setof", (X,), conds, (VX,))
    if case[0] == "subq":
        _, sk, t, place, dom, caching = case
        outer, scond, S = subq_parts(case)
        fa = ("fa", S, subst(t, U, S))
        other = ("cmp", "le", A(X, "p"), L(2))
        conds = {"alone": (fa,), "before": (("andf", other, fa),), "after": (("andf", fa, other),),
                 "nested": (("fa", W_, fa),)}[place]
        return ("Q", "an", "setof", (X,), conds, (VX,))
    if case[0] == "free2":
        _, t, place, sel, dom, caching = case
        fa = ("fa", U, t)
        other = ("cmp", "ge", A(Y_, "q"), L(1))
        conds = {"alone": (fa,), "before": (("andf", other, fa),), "after": (("andf", fa, other),)}[place]
        return ("Q", "an", "setof", tuple(V(n) for n in sel), conds, (VX, VY))
    uform, t, place, dom, caching = case
    univ = U if uform == "var" else A(U, "q")
    fa = ("fa", univ, t)
    other = ("cmp", "le", A(X, "p"), L(2))
    conds = {"alone": (fa,), "before": (("andf", other, fa),), "after": (("andf", fa, other),)}[place]
    return ("Q", "an", "setof", (X,), conds, (VX,))


def wspec_of(case):
    if case[0] == "subc":
        return (("F", "Item", FREE), ("U", "Item", case[3]), ("W", "Item", WROWS))
    if case[0] == "sib":
        return (("F", "Item", FREE), ("U", "Item", case[5]))
    if case[0] == "corr":
        return (("F", "Item", CORR_WORLDS[case[4]]),)
    if case[0] == "subq":
        return (("F", "Item", FREE), ("U", "Item", case[4]), ("W", "Item", WROWS))
    if case[0] == "free2":
        return (("F", "Item", FREE_X2), ("G", "Item", FREE_Y2), ("U", "Item", case[4]))
    return (("F", "Item", FREE), ("U", "Item", case[3]))


def run_subq(case, inst):
    _, sk, t, place, dom, caching = case
    q = query_of(case)
    outer, scond, S = subq_parts(case)

    def body():
        world = build_world(wspec_of(case), inst)
        ref = Q.Ref(world, inst, universals=(VU,))
        must, unspecified = [], []
        for x in world["F"]:
            if place in ("before", "after") and not x.p <= inst.v(2):
                continue
            ok, empty = True, False
            for w in (world["W"] if place == "nested" else [None]):
                env = {"x": x, "w": w}
                us = [u for u in world["U"] if ref.holds(scond, {**env, "u": u})]
                empty = empty or not us        # the statement speaks of a non-empty domain of the universal
                ok = ok and all(ref.holds(t, {**env, "u": u}) for u in us)
            (unspecified if empty else must).append((x,)) if (ok or empty) else None
        try:
            from entity_query_language import symbolic_mode
            b = Q.Builder(world, inst)
            with symbolic_mode():
                b.declare((VU, VW) if place == "nested" else (VU,))
                obj = b.query(q)
            sel = b.sel[q]
            got1 = [tuple(r[s_] for s_ in sel) for r in obj.evaluate()]
        except Exception as e:
            return exc_obs(e), None, must, unspecified
        try:
            got2 = [tuple(r[s_] for s_ in sel) for r in obj.evaluate()]
        except Exception as e:
            got2 = exc_obs(e)
        return got1, got2, must, unspecified

    got1, got2, must, unspecified = run_isolated(body, caching=caching)
    res = {"ok": True, "nontrivial": 0 < len(must) < len(FREE), "transitions": 2,
           "tags": ["uform=subq", f"sub={sk}", f"root={root_kind(t)}", f"place={place}",
                    f"caching={'on' if caching else 'off'}", f"urows={len(dom)}"], "outcome": str(len(must))}
    for name, got in (("eval1", got1), ("eval2", got2)):
        if is_exc(got):
            d = "exception"
        else:
            # bindings under which the sub-query has no solution are outside the statement: neither demanded nor forbidden
            rest = [r for r in got if not any(r[0] is u[0] for u in unspecified)]
            d = diff_rows(rest, must, count=True)
        if d is not None:
            res.update(ok=False, sig=f"{name}:{d}/root={root_kind(t)}/cache={'on' if caching else 'off'}/subq-{sk}-{place}",
                       obs=(name, row_labels(got)), exp=("must", row_labels(must), "unspecified", row_labels(unspecified)))
            break
    return res


def run_corr(case, inst):
    _, uk, t, place, wk, caching = case
    q = query_of(case)

    def body():
        world = build_world(wspec_of(case), inst)
        exp = [(env["x"],) for env in Q.Ref(world, inst).solutions(q)]
        try:
            obj, b = Q.build(q, world, inst)
            sel = b.sel[q]
            got1 = [tuple(r[s_] for s_ in sel) for r in obj.evaluate()]
        except Exception as e:
            return exc_obs(e), None, exp
        try:
            got2 = [tuple(r[s_] for s_ in sel) for r in obj.evaluate()]
        except Exception as e:
            got2 = exc_obs(e)
        return got1, got2, exp

    got1, got2, exp = run_isolated(body, caching=caching)
    res = {"ok": True, "nontrivial": 0 < len(exp) < len(CORR_WORLDS[wk]), "transitions": 2,
           "tags": [f"uform=corr-{uk}", f"root={root_kind(t)}", f"place={place}", f"caching={'on' if caching else 'off'}"],
           "outcome": str(len(exp))}
    for name, got in (("eval1", got1), ("eval2", got2)):
        d = diff_rows(got, exp, count=True)
        if d is not None:
            res.update(ok=False, sig=f"{name}:{d}/root={root_kind(t)}/cache={'on' if caching else 'off'}/corr-{uk}-{place}",
                       obs=(name, row_labels(got)), exp=row_labels(exp))
            break
    return res


def run_sib(case, inst):
    _, conn, kind, t1, t2, dom, caching = case
    q = query_of(case)

    def body():
        world = build_world(wspec_of(case), inst)
        ref = Q.Ref(world, inst, universals=(VU,))
        exp = [(env["x"],) for env in ref.solutions(q)]
        try:
            from entity_query_language import symbolic_mode
            b = Q.Builder(world, inst)
            with symbolic_mode():
                b.declare((VU,))
                obj = b.query(q)
            sel = b.sel[q]
            got1 = [tuple(r[s_] for s_ in sel) for r in obj.evaluate()]
        except Exception as e:
            return exc_obs(e), None, exp
        try:
            got2 = [tuple(r[s_] for s_ in sel) for r in obj.evaluate()]
        except Exception as e:
            got2 = exc_obs(e)
        return got1, got2, exp

    got1, got2, exp = run_isolated(body, caching=caching)
    res = {"ok": True, "nontrivial": 0 < len(exp) < len(FREE), "transitions": 2,
           "tags": [f"uform=sib-{kind}", f"root={conn}", "place=alone", "caching=on", f"urows={len(dom)}"], "outcome": str(len(exp))}
    for name, got in (("eval1", got1), ("eval2", got2)):
        d = diff_rows(got, exp, count=True)
        if d is not None:
            res.update(ok=False, sig=f"{name}:{d}/root={conn}/sib-{kind}", obs=(name, row_labels(got)), exp=row_labels(exp))
            break
    return res


def run_subc(case, inst):
    _, kind, place, dom, caching = case
    q = query_of(case)

    def body():
        world = build_world(wspec_of(case), inst)
        holds = SUBC[kind][1]
        exp = [(x,) for x in world["F"] if (place == "alone" or x.p <= inst.v(2))
               and all(holds(x, u, world["W"], inst.v) for u in world["U"])]
        try:
            from entity_query_language import symbolic_mode
            b = Q.Builder(world, inst, share_conds="ops" if kind == "shared" else False)
            with symbolic_mode():
                b.declare((VU,))
                obj = b.query(q)
                if kind == "shared":
                    # another query that uses the condition object of the for_all; it is never evaluated
                    other = an(set_of([b.env["x"]], b.cond(SUBC[kind][0])))
            sel = b.sel[q]
            got1 = [tuple(r[s_] for s_ in sel) for r in obj.evaluate()]
        except Exception as e:
            return exc_obs(e), None, exp
        try:
            got2 = [tuple(r[s_] for s_ in sel) for r in obj.evaluate()]
        except Exception as e:
            got2 = exc_obs(e)
        return got1, got2, exp

    got1, got2, exp = run_isolated(body, caching=caching)
    res = {"ok": True, "nontrivial": 0 < len(exp) < len(FREE), "transitions": 2,
           "tags": [f"uform=subc-{kind}", f"place={place}", "caching=on", f"urows={len(dom)}"], "outcome": str(len(exp))}
    for name, got in (("eval1", got1), ("eval2", got2)):
        d = diff_rows(got, exp, count=True)
        if d is not None:
            res.update(ok=False, sig=f"{name}:{d}/subc-{kind}-{place}", obs=(name, row_labels(got)), exp=row_labels(exp))
            break
    return res


def run_case(case, inst):
    if case[0] == "subc":
        return run_subc(case, inst)
    if case[0] == "sib":
        return run_sib(case, inst)
    if case[0] == "corr":
        return run_corr(case, inst)
    if case[0] == "subq":
        return run_subq(case, inst)
    if case[0] == "free2":
        _, t, place, sel2, dom, caching = case
        uform = "free2"
    else:
        uform, t, place, dom, caching = case
        sel2 = ("x",)
    q = query_of(case)

    def body():
        world = build_world(wspec_of(case), inst)
        ref = Q.Ref(world, inst, universals=(VU,))
        exp = [tuple(env[n] for n in sel2) for env in ref.solutions(q)]
        if len(sel2) == 1 and uform == "free2":
            exp = list({id(r[0]): r for r in exp}.values())       # projection: compared as a set
        try:
            b = Q.Builder(world, inst)
            from entity_query_language import symbolic_mode
            with symbolic_mode():
                b.declare((VU,))
                obj = b.query(q)
            sel = b.sel[q]
            got1 = [tuple(r[s] for s in sel) for r in obj.evaluate()]
        except Exception as e:
            return exc_obs(e), None, exp
        try:
            got2 = [tuple(r[s] for s in sel) for r in obj.evaluate()]
        except Exception as e:
            got2 = exc_obs(e)
        return got1, got2, exp

    got1, got2, exp = run_isolated(body, caching=caching)
    mentions = "".join(n for n in ("u", "x", "y") if n in Q.cond_vars(t))
    nfree = len(FREE) if uform != "free2" else (len(FREE_X2) * len(FREE_Y2) if len(sel2) == 2 else
                                                (len(FREE_X2) if sel2 == ("x",) else len(FREE_Y2)))
    res = {"ok": True, "nontrivial": 0 < len(exp) < nfree, "transitions": 2,
           "tags": [f"uform={uform}", f"root={root_kind(t)}", f"place={place}", f"caching={'on' if caching else 'off'}",
                    f"mentions={mentions}", f"urows={len(dom)}"],
           "outcome": str(len(exp))}
    for name, got in (("eval1", got1), ("eval2", got2)):
        d = diff_rows(got, exp, count=(uform != "free2" or len(sel2) == 2))
        if d is not None:
            res.update(ok=False, sig=f"{name}:{d}/root={root_kind(t)}/cache={'on' if caching else 'off'}/{uform}",
                       obs=(name, row_labels(got)), exp=row_labels(exp))
            break
    return res


def describe(case, inst):
    if case[0] == "subc":
        return ("enable_caching()\n" + Q.up_world(wspec_of(case), inst) + "\nwith symbolic_mode(): u = let(Item, U)\n"
                + Q.up_query(query_of(case), inst)
                + ("\nwith symbolic_mode(): other = an(set_of([x], <the condition object of the for_all>))   # built, never evaluated"
                   if case[1] == "shared" else "")
                + "\nrows1 = list(q.evaluate()); rows2 = list(q.evaluate())"
                  "\n# expected: {x | all(c(x, u) for u in U)}; a sub-query inside c looks for its own solutions under every u")
    if case[0] == "sib":
        return ("enable_caching()\n" + Q.up_world(wspec_of(case), inst) + "\nwith symbolic_mode(): u = let(Item, U)\n"
                + Q.up_query(query_of(case), inst)
                + "\nrows1 = list(q.evaluate()); rows2 = list(q.evaluate())"
                  "\n# expected: each for_all quantifies over ALL values of its universal expression, whatever the other one ranges over")
    if case[0] == "corr":
        return (("enable_caching()" if case[-1] else "disable_caching()") + "\n" + Q.up_world(wspec_of(case), inst) + "\n"
                + Q.up_query(query_of(case), inst)
                + "\nrows1 = list(q.evaluate()); rows2 = list(q.evaluate())"
                  "\n# expected: {x | all(c(x, e) for e in x.t)} (resp. c(x, x.t[0])): the universal is built from the selected x")
    if case[0] == "subq":
        return (("enable_caching()" if case[-1] else "disable_caching()") + "\n" + Q.up_world(wspec_of(case), inst) + "\n"
                + "with symbolic_mode(): u = let(Item, U)" + ("; w = let(Item, W)" if case[3] == "nested" else "") + "\n"
                + Q.up_query(query_of(case), inst)
                + "\n# S = the sub-query an(entity(u, ...)), ONE object, the universal of the for_all and what the condition reads"
                  "\nrows1 = list(q.evaluate()); rows2 = list(q.evaluate())"
                  "\n# expected: {x | all(c(x, u) for u in U if s(u, x))}; an x for which no u qualifies is not judged")
    return (("enable_caching()" if case[-1] else "disable_caching()") + "\n" + Q.up_world(wspec_of(case), inst) + "\n"
            + "with symbolic_mode(): u = let(Item, U)\n" + Q.up_query(query_of(case), inst)
            + "\nrows1 = list(q.evaluate()); rows2 = list(q.evaluate())   # expected: {x | all(c(x, u) for u in U)}")
