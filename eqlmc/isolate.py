"""Per-case isolation of the library's process-global state.

* The two ContextVars (symbolic mode, caching switch) are isolated by running every case in a fresh copy of the pristine
  context captured at import time - no private attribute is written for them.
* The instance registry is cleared exactly as the repository's own test fixture does.
* The class-level expression stack is emptied (recorded, not judged, when it was not empty: that is C08's business).
"""
from __future__ import annotations

import contextvars
import gc

import eqlmc  # noqa: F401
from entity_query_language.symbolic import Variable, SymbolicExpression, in_symbolic_mode
from entity_query_language import cache_data

_PRISTINE = contextvars.copy_context()

stats = {"stack_leaks": 0, "mode_leaks": 0}


def clear_registry():
    for c in list(Variable._cache_.values()):
        c.clear()
    Variable._cache_.clear()


def run_isolated(fn, *args, caching=True):
    """Run fn(*args) in a fresh copy of the pristine context with a clean registry."""
    ctx = _PRISTINE.copy()

    def body():
        clear_registry()
        try:
            stack = SymbolicExpression._symbolic_expression_stack_
            if stack:
                stats["stack_leaks"] += 1
                del stack[:]
        except Exception:
            pass
        if caching:
            cache_data.enable_caching()
        else:
            cache_data.disable_caching()
        try:
            return fn(*args)
        finally:
            try:
                if in_symbolic_mode():
                    stats["mode_leaks"] += 1
            except Exception:
                pass

    try:
        return ctx.run(body)
    finally:
        pass
