"""Per-case isolation of the library's process-global state.

* The two ContextVars (symbolic mode, caching switch) are isolated by running every case in a fresh copy of the pristine
  context captured at import time - no private attribute is written for them.
* The instance registry is cleared exactly as the repository's own test fixture does.
* The class-level expression stack is emptied (recorded, not judged, when it was not empty: that is C08's business).
"""
from __future__ import annotations

import contextvars
import gc

import eqlmc  # noqa: F401
from entity_query_language.symbolic import Variable, SymbolicExpression, in_symbolic_mode
from entity_query_language import cache_data

_PRISTINE = contextvars.copy_context()

stats = {"stack_leaks": 0, "mode_leaks": 0}


def clear_registry():
    for c in list(Variable._cache_.values()):
        c.clear()
    Variable._cache_.clear()


_LRU = None
_since_forget = 0


def _library_lru_caches():
    """every functools.lru_cache of the library's classes (methods and the getters of properties)"""
    global _LRU
    if _LRU is None:
        import sys
        found = {}
        for name, mod in list(sys.modules.items()):
            if name != "entity_query_language" and not name.startswith("entity_query_language."):
                continue
            for cls in list(vars(mod).values()):
                if not isinstance(cls, type):
                    continue
                for attr in list(vars(cls).values()):
                    f = attr.fget if isinstance(attr, property) else attr
                    if hasattr(f, "cache_clear") and hasattr(f, "cache_info"):
                        found[id(f)] = f
        _LRU = list(found.values())
    return _LRU


def forget_expressions(every=10):
    """Long-lived workers: the library keeps every expression ever built - in a class-level map (id -> expression), in
    unbounded lru_caches keyed by the expression, and in one class-level graph of all expression nodes - and never drops
    one (~30 MB per case of C18's thorough tier; found when the per-worker memory limit stopped that tier). Expression ids
    come from a counter that only grows and the caches are keyed by them, so that forgetting the expressions of FINISHED
    cases changes nothing for later ones. Done every `every` cases, between cases (no query is live then)."""
    global _since_forget
    _since_forget += 1
    if _since_forget < every:
        return
    _since_forget = 0
    try:
        import sys
        for f in _library_lru_caches():
            f.cache_clear()
        SymbolicExpression._id_expression_map_.clear()
        from entity_query_language.rxnode import RWXNode
        if RWXNode._graph.num_nodes():
            RWXNode._graph.clear()
        # (the graph is not traversed by the collector: what it held becomes collectable only now; a finaliser of a dead
        # query that still walks the emptied graph fails on its own, there is no live query it could touch between cases)
        hook = sys.unraisablehook
        sys.unraisablehook = lambda *a, **k: None
        try:
            gc.collect()
        finally:
            sys.unraisablehook = hook
    except Exception:
        pass


def run_isolated(fn, *args, caching=True):
    """Run fn(*args) in a fresh copy of the pristine context with a clean registry."""
    ctx = _PRISTINE.copy()

    def body():
        clear_registry()
        try:
            stack = SymbolicExpression._symbolic_expression_stack_
            if stack:
                stats["stack_leaks"] += 1
                del stack[:]
        except Exception:
            pass
        if caching:
            cache_data.enable_caching()
        else:
            cache_data.disable_caching()
        try:
            return fn(*args)
        finally:
            try:
                if in_symbolic_mode():
                    stats["mode_leaks"] += 1
            except Exception:
                pass

    try:
        return ctx.run(body)
    finally:
        pass
