"""Deterministic enumerators for the bounded spaces (simplest first, distinct by construction)."""
from __future__ import annotations

import itertools


def trees_by_depth(leaves, max_depth, unary=("not",), binary=("and", "or")):
    """Yield every condition tree of depth <= max_depth over `leaves`, each exactly once, ordered by depth.

    depth(leaf) = 0, depth(u(a)) = depth(a)+1, depth(b(a1,a2)) = max(depth)+1.
    Count: N(<=0) = L, N(<=d) = L + |unary|*N(<=d-1) + |binary|*N(<=d-1)^2.
    """
    exact = [list(leaves)]          # exact[d] = trees of depth exactly d
    yield from exact[0]
    for d in range(1, max_depth + 1):
        lower = [t for lvl in exact[:d - 1] for t in lvl]   # depth <= d-2
        top = exact[d - 1]                                   # depth == d-1
        cur = []
        for u in unary:
            for a in top:
                cur.append((u, a))
        for b in binary:
            for a in top:
                for c in top:
                    cur.append((b, a, c))
            for a in top:
                for c in lower:
                    cur.append((b, a, c))
                    cur.append((b, c, a))
        exact.append(cur)
        yield from cur


def count_trees(n_leaves, max_depth, n_unary=1, n_binary=2):
    n = n_leaves
    for _ in range(max_depth):
        n = n_leaves + n_unary * n + n_binary * n * n
    return n


def nonempty_ordered_selections(items, max_len=None):
    """every non-empty sequence of distinct items (all orders)"""
    items = list(items)
    max_len = max_len or len(items)
    for r in range(1, max_len + 1):
        yield from itertools.permutations(items, r)


def sequences(alphabet, max_len, min_len=0):
    for n in range(min_len, max_len + 1):
        yield from itertools.product(alphabet, repeat=n)


def binary_shapes(n):
    """all binary tree shapes with n nodes: None | (left, right)   (Catalan(n) of them)"""
    if n == 0:
        yield None
        return
    for l in range(n):
        for L in binary_shapes(l):
            for R in binary_shapes(n - 1 - l):
                yield (L, R)


def histories(initial, enabled, step, max_depth):
    """Every enabled operation sequence of length <= max_depth, shortest first (iterative deepening, depth-first within
    a length, so memory stays O(depth) however many histories there are).

    `enabled(model_state)` -> iterable of ops, `step(model_state, op)` -> new model state (pure, reference machine).
    Stateless search: no pruning by state, every history is yielded exactly once.
    """
    yield ()

    def rec(hist, st, remaining):
        if remaining == 0:
            yield hist
            return
        for op in enabled(st):
            yield from rec(hist + (op,), step(st, op), remaining - 1)

    for d in range(1, max_depth + 1):
        yield from rec((), initial, d)
