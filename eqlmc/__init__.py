"""eqlmc - bounded exhaustive exploration (model checking) of entity_query_language.

Importing this package puts the library under test on sys.path: /repo/src by default, or the tree named by
EQLMC_REPO (used only by the mutation harness, which works on scratch copies).
"""
import os
import sys

VERIF_ROOT = os.path.dirname(os.path.dirname(os.path.abspath(__file__)))
REPO_ROOT = os.environ.get("EQLMC_REPO", "/repo")
_SRC = os.path.join(REPO_ROOT, "src")
if _SRC not in sys.path:
    sys.path.insert(0, _SRC)
# drop an already imported copy from another location (defensive: the editable install points to /repo/src too)
_m = sys.modules.get("entity_query_language")
if _m is not None and not os.path.abspath(getattr(_m, "__file__", "")).startswith(os.path.abspath(_SRC)):
    for k in [k for k in sys.modules if k == "entity_query_language" or k.startswith("entity_query_language.")]:
        del sys.modules[k]

# the library warns (through `logging`) about Cartesian products of unconstrained variables; the enumerated spaces contain
# many of those on purpose, the warnings would only flood the logs of the checks
import logging  # noqa: E402
try:
    import entity_query_language as _eql  # noqa: E402
    _eql.logger.setLevel(logging.ERROR)   # (a Logger instance of its own, not one of the logging hierarchy)
except Exception:     # the selftest reports an import problem in its own words
    pass
