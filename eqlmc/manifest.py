"""Regenerates /verif/MANIFEST.json from the property modules that exist (python -m eqlmc.manifest)."""
import importlib
import json
import os

import eqlmc

BASELINE_OFF = ("cd /repo && /venv/bin/python -m pytest -ra -q -p no:cacheprovider --timeout=900 "
                "--continue-on-collection-errors")

TRUSTED = ("Trusted base: CPython 3.12, the reference semantics in eqlmc/qast.py (about 60 lines of ordinary Python) and "
           "the property module's own oracle, per-case isolation (fresh contextvars context, registry cleared like the "
           "repository's test fixture). Nothing is claimed beyond the stated bounds and alphabets.")


def level_text(m):
    return getattr(m, "LEVEL_TEXT", None) or (
        "Complete enumeration of a bounded space of programs x inputs x configurations, each member executed on the real "
        "library from a clean state and compared with a plain-Python reference model; a coverage statement, not a sample.")


def main():
    checks = []
    na = []
    engines = {"eqlmc-E1": [], "eqlmc-E2": []}
    for i in range(1, 21):
        pid = f"C{i:02d}"
        try:
            m = importlib.import_module(f"eqlmc.props.{pid.lower()}")
        except ModuleNotFoundError:
            na.append({"property_id": pid, "reason": "check not built yet (work in progress; bounded exhaustive "
                                                     "exploration applies, see DESIGN.md section 4)"})
            continue
        eng = getattr(m, "ENGINE", "eqlmc-E1")
        engines.setdefault(eng, []).append(pid)
        checks.append({
            "property_id": pid,
            "quick_cmd": f"./check {pid} --tier quick",
            "thorough_cmd": f"./check {pid} --tier thorough",
            "evidence_file": f"evidence/{pid}.json",
            "replay_cmd_template": f"./check {pid} --replay {{path}}",
            "engine": eng,
            "level_claimed": {"category": "model_checking", "text": level_text(m),
                              "design_ref": f"DESIGN.md section 4, {pid}"},
            "level_note": (getattr(m, "LEVEL_NOTE", "") + " " + TRUSTED).strip(),
            "technique": getattr(m, "TECHNIQUE", "bounded exhaustive enumeration of programs x inputs executed on the "
                                                "implementation against a reference model (explicit-state, stateless)"),
        })
    man = {
        "version": 1,
        "setup_cmd": "cd /verif && PYTHONHASHSEED=0 /venv/bin/python -m eqlmc.selftest",
        "hooks": {"guard": "EQL_VERIF", "enable": "none needed: checks drive /repo/src through its public API; "
                                                  "no source hooks were added",
                  "baseline_off_cmd": BASELINE_OFF, "source_commits": [], "add_only": True},
        "engines": [
            {"name": "eqlmc-E1", "path": "eqlmc/", "serves_properties": engines.get("eqlmc-E1", []),
             "kind_free_text": "program x input enumerator: every case of a bounded space is executed on the real "
                               "library from a clean state and compared with a Python reference model"},
            {"name": "eqlmc-E2", "path": "eqlmc/", "serves_properties": engines.get("eqlmc-E2", []),
             "kind_free_text": "stateless history explorer: every enabled operation sequence up to a depth is replayed "
                               "on fresh real objects, invariant / reference machine checked after every step"},
        ],
        "checks": checks,
        "notes": "See DESIGN.md. Known findings: KNOWN_FINDINGS.txt + known_findings/*.json. Seeded changes: seeded/.",
        "not_applicable": na,
    }
    with open(os.path.join(eqlmc.VERIF_ROOT, "MANIFEST.json"), "w") as f:
        json.dump(man, f, indent=1)
    print(f"MANIFEST.json: {len(checks)} checks, {len(na)} not claimed")


if __name__ == "__main__":
    main()
