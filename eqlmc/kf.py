"""Known findings: genuine defects of the library that are recorded rather than repaired.

/verif/KNOWN_FINDINGS.txt (committed, never written at run time) has one line per entry:

    known: property=<id> id=<slug> <what fails>
    fixed: property=<id> <commit> <what failed>          (informational: suppresses nothing)

Every `known:` entry has a matcher /verif/known_findings/<slug>.json of one of two kinds:

  {"kind": "explicit", "cases": {"<case key>": "<digest of the wrong observation>", ...}}
      a failing case is attributed to the finding only if its key is listed AND its observation has that digest.

  {"kind": "model", "scope": "<name>", "bug_model": "<name>", "witnesses": [...]}
      `scope` and `bug_model` name functions of the property module (KF_SCOPES / KF_MODELS): the case must satisfy
      the scope predicate AND the observation must equal what the alternative (buggy) reference semantics predicts.

Anything else - a failing case out of scope, or in scope but wrong in a different way - is a VIOLATION.
"""
from __future__ import annotations

import hashlib
import json
import os
import re

from eqlmc import VERIF_ROOT

_LINE = re.compile(r"^known:\s+property=(\S+)\s+id=(\S+)\s+(.*)$")


def digest(obs) -> str:
    s = obs if isinstance(obs, str) else repr(obs)
    return hashlib.sha1(s.encode()).hexdigest()[:16]


def load(pid):
    out = {}
    path = os.path.join(VERIF_ROOT, "KNOWN_FINDINGS.txt")
    if not os.path.exists(path):
        return out
    with open(path) as f:
        for line in f:
            m = _LINE.match(line.strip())
            if not m or m.group(1) != pid:
                continue
            fid, what = m.group(2), m.group(3)
            mp = os.path.join(VERIF_ROOT, "known_findings", f"{fid}.json")
            if not os.path.exists(mp):
                continue   # an entry without a matcher suppresses nothing
            with open(mp) as g:
                out[fid] = {"what": what, "matcher": json.load(g)}
    return out


def match(known, prop, case, sig, obs, hint, inst):
    """Return the id of the known finding this failing case belongs to, or None."""
    if not known:
        return None
    from eqlmc.runner import case_key
    for fid, k in known.items():
        m = k["matcher"]
        try:
            if m.get("kind") == "explicit":
                want = m.get("cases", {}).get(case_key(case))
                if want is not None and want == digest(obs):
                    return fid
            elif m.get("kind") == "model":
                scope = getattr(prop, "KF_SCOPES", {}).get(m.get("scope"))
                model = getattr(prop, "KF_MODELS", {}).get(m.get("bug_model"))
                if scope is None or model is None:
                    continue
                if scope(case, inst) and model(case, inst, sig, obs, hint):
                    return fid
        except Exception:
            continue
    return None
