#!/bin/sh
# ./allquick.sh [extra args for ./check]  - every quick check in a row (EQLMC_REPO / VERIF_SEED are passed through); one line each
cd "$(dirname "$0")" || exit 1
rc=0
for c in C01 C02 C03 C04 C05 C06 C07 C08 C09 C10 C11 C12 C13 C14 C15 C16 C17 C18 C19 C20; do
  ./check $c --tier quick "$@" 2>/dev/null | grep -E "^$c tier|^VIOLATION|^HARNESS" | cut -c1-170 | tail -2
  [ "${PIPESTATUS:-0}" = 0 ] || rc=1
done
exit $rc
