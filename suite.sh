#!/bin/sh
# runs the repository's pinned suite (70 stable tests; the 2 rendering tests always fail in the baseline)
cd "${1:-/repo}" && /venv/bin/python -m pytest -q -p no:cacheprovider --timeout=900 --continue-on-collection-errors 2>&1 | tail -6
