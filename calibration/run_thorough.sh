#!/bin/sh
# runs every thorough check once (sequentially), keeps a copy of each evidence file, then restores quick evidence
cd "$(dirname "$0")/.." || exit 1
mkdir -p calibration/thorough
for i in $(seq -w 1 20); do
  ./check C$i --tier thorough > calibration/thorough/C$i.log 2>&1; echo "C$i rc=$? $(tail -1 calibration/thorough/C$i.log | cut -c1-160)"
  cp evidence/C$i.json calibration/thorough/C$i.json
done
for i in $(seq -w 1 20); do ./check C$i --tier quick > /dev/null 2>&1; done
/venv/bin/python -m eqlmc.report
